"""C02 – every program that type-checks also builds.

The union of the well-typed programs the other checks generate: every unit of the semantic corpus (pspace/sem.py), and
the benign twins of the C03 rule x context space (each a complete well-typed program in one statement / function /
expression context). Each program is first shown to the real checker; accepted programs must survive code generation
(`IrCodegen::try_generate`, in-process) and `incan build` (the real CLI + cargo + rustc).
"""
import json
import re

from . import c01, c03, common, pipe, sem, serve


def outcome_kind(r):
    d = r.detail
    if r.stage == "rustc":
        codes = d.split(":")[0]
        return f"rustc:{codes}"
    if r.stage == "codegen":
        m = re.match(r"(\w+): (?:lowering error: |emission error: )?(.*)", d)
        msg = re.sub(r"'[^']*'", "'_'", m.group(2))[:60] if m else d[:60]
        return f"{m.group(1) if m else 'codegen'}:{msg}".replace(" ", "_")
    return f"{r.stage}:{d[:60]}".replace(" ", "_")


def twin_programs(tier):
    level = 3 if tier == "thorough" else 2
    out = []
    seen = set()
    for k, (sig, bad, good) in enumerate(c03.enumerate_cases(level)):
        if tier != "thorough" and len(sig) > 1 and k % 3 != 0:
            continue
        if tier == "thorough" and len(sig) > 2 and k % 9 != 0:
            continue
        src = good + "\n\ndef main() -> None:\n    pass\n"
        if src in seen:
            continue
        seen.add(src)
        out.append((sig, src))
    return out


def run(tier):
    common.build(need_cli=True)
    pipe.warm()
    out = common.Outcome("C02", tier)
    # ---------------- (a) semantic corpus units -------------------------------------------------------------------
    units = sem.corpus(tier)
    chk = c01.check_units(units)
    accepted = [u for u, c in zip(units, chk) if c["check"]["status"] == "ok"]
    normal = [u for u in accepted if not u.panics]
    packs = [normal[i : i + c01.PACK] for i in range(0, len(normal), c01.PACK)] + [[u] for u in accepted if u.panics]
    ran, failed = c01.build_packs(packs)
    for name, r in failed.items():
        u = next(x for x in units if x.name == name)
        inc, _ = sem.pack([u])
        out.fail(f"unit:{name}|{outcome_kind(r)}", {"program": inc, "stage": r.stage, "detail": r.detail, "stderr": r.stderr[-1500:], "tags": list(u.tags)})
    # ---------------- (b) C03 benign twins --------------------------------------------------------------------------
    twins = twin_programs(tier)
    reqs = [{"id": i, "op": "front", "src": src, "emit": True} for i, (sig, src) in enumerate(twins)]
    fr = serve.run_requests(reqs)
    to_build = []
    n_acc = 0
    l1_fail = {}
    twin_fail = []
    for i, (sig, src) in enumerate(twins):
        r = fr[i]
        if r.get("crashed") or r["check"]["status"] != "ok":
            continue  # not in the domain (C03 reports twins that are rejected)
        n_acc += 1
        em = r["emit"]
        if em["status"] != "ok":
            kind = ("emit-panic" if em["status"] == "panic" else "codegen:" + re.sub(r"'[^']*'", "'_'", (em.get("detail") or ""))[:70]).replace(" ", "_")
            twin_fail.append((sig, src, kind, em.get("detail") or em.get("panic") or ""))
        else:
            to_build.append((i, sig, src))
    res = pipe.run_many([(i, {"prog.incn": src}, {"run": False}) for i, sig, src in to_build])
    n_built = 0
    for i, sig, src in to_build:
        r = res[i]
        if r.ok:
            n_built += 1
        else:
            twin_fail.append((sig, src, outcome_kind(r), r.stderr[-1500:]))
    for sig, src, kind, detail in twin_fail:
        if len(sig) == 1:
            l1_fail[sig[0]] = kind
    by_key = {}
    for sig, src, kind, detail in twin_fail:
        key = f"twin:{sig[0]}|{kind}" if l1_fail.get(sig[0]) == kind else "twin:" + "@".join(sig[:2]) + f"|{kind}"
        by_key.setdefault(key, []).append({"program": src, "sig": list(sig), "detail": detail})
    for key, cs in by_key.items():
        cs.sort(key=lambda c: (len(c["sig"]), len(c["program"])))
        for c in cs[:2]:
            out.fail(key, c)
        if key in out.known_seen:
            out.known_seen[key][0] = len(cs)
    ok_sigs = {u.tags for u in accepted if u.name in ran} | {sig for (i, sig, src) in to_build if res[i].ok}
    cov = {
        "evaluations": len(units) + len(twins),
        "distinct_nontrivial": len(ok_sigs),
        "rule": "programs = every unit of the semantic corpus (see C01) + the benign twin of every C03 rule x context case (quick: level 1 and a third of level 2; thorough: all of "
        "level 2 and a ninth of level 3), each with a main; domain = programs the real checker accepts; oracle = try_generate succeeds and `incan build` exits 0; "
        "non-trivial = distinct signatures of accepted programs that built",
        "samples": [{"sig": list(sig), "program": src} for sig, src in common.pick_samples(twins)],
        "exhaustive": True,
        "corpus_units": len(units),
        "corpus_units_accepted": len(accepted),
        "corpus_units_built": len(ran),
        "twins": len(twins),
        "twins_accepted": n_acc,
        "twins_built": n_built,
        "failing_by_class": {**{k: len(v) for k, v in by_key.items()}, **{f"unit:{n}": 1 for n in failed}},
    }
    pipe.prune_targets()
    return out.finish(
        cov,
        assumptions=[
            "implication only: accepted by `TypeChecker::check_with_imports` => code generation and `incan build` succeed",
            "the offline cargo registry is what a user's cargo would resolve (generated programs depend only on incan_stdlib / incan_derive by path here)",
        ],
    )


def replay(path):
    common.build(need_cli=True)
    rec = json.load(open(path, encoding="utf-8"))
    src = rec["case"]["program"]
    r = pipe.run_program(0, {"prog.incn": src}, run=False)
    print(src)
    print("incan build:", "ok" if r.ok else f"FAILED at {r.stage}: {r.detail}")
    print(r.stderr[-1200:])
    return 0 if r.ok else 1
