#!/usr/bin/env python3
"""Regenerate /verif/MANIFEST.json from the table below (kept in one place so the manifest is always valid)."""
import json, os
V = os.path.dirname(os.path.dirname(os.path.abspath(__file__)))
props = [json.loads(l) for l in open(os.path.join(V, "properties.jsonl"))]

CHECKS = {
 "C03": dict(engine="pspace+ivh", category="exploration", design="DESIGN.md §2 C03",
   technique="bounded exhaustive rule x context enumeration of ill-typed programs against the real type checker, with benign twins",
   text="Every rule-breaking construct from the property's list (34 statement/expression/declaration rule variants) is placed in every statement, function and expression context of a well-typed base program (quick: 1 context level, thorough: two levels and pairs), with the byte range of the offending construct recorded; the real checker must return an error whose span intersects that range, and the benign twin in the same place must be accepted (so an over-strict checker or a broken generator cannot pass). A slice is replayed through `incan --check`.",
   note="The rule list and the contexts are those enumerated in pspace/c03.py; programs beyond two nesting levels are not covered. Known findings (call-argument types, field mutation through immutable bindings, f-string sub-spans) are listed in known_findings.txt."),
 "C08": dict(engine="pspace+ivh", category="exploration", design="DESIGN.md §2 C08",
   technique="deviation-bounded exhaustive enumeration of syntactic programs (atom x context) through the real formatter; AST equality of re-parsed output",
   text="One atom per AST node kind and optional field (356 declaration/statement/expression/pattern/type atoms) is placed alone, in every context (quick, 11k programs) and nested two contexts deep (thorough, 198k programs), plus the repository's 90 own sources; for each, format_source must succeed, its output must lex and parse, and the span-erased AST must equal the original's modulo the stated spelling normalisations.",
   note="AST equality is on the derived Debug rendering with spans erased; normalisations: tuple/unit type spellings, module docstring outer whitespace. Programs beyond the deviation bound are not covered."),
 "C09": dict(engine="pspace+ivh+cli", category="exploration", design="DESIGN.md §2 C09",
   technique="same enumerated program space as C08: fmt(fmt(x))==fmt(x), surface rules by re-lexing, and the real CLI (fmt / --check / --diff / both) on a scratch tree",
   text="For every enumerated program whose first format re-parses: a second format is byte-identical, the output ends in exactly one newline and has no tab / trailing whitespace outside string-like tokens (decided by re-lexing). The real `incan fmt`, `fmt --check`, `fmt --diff` and `--check --diff` are run on a scratch tree of 400 of the cases: --check/--diff never modify files, exit non-zero before and zero after formatting, and the CLI writes exactly what the library returned.",
   note="Same bounds as C08. The CLI part uses the level-1 cases only."),
 "C10": dict(engine="ivh", category="exploration", design="DESIGN.md §2 C10",
   technique="exhaustive enumeration of layout edits at every position (from the real lexer's token spans) of every base program, and all (global transform x local edit) pairs; AST equality",
   text="For each base program (repository sources and generated level-1 programs) every meaning-preserving edit is applied at every position: comment line at 5 indentations, empty / blank / tab-only line at each line boundary, trailing comment / spaces / tab on each line, a line break after every token inside brackets at 3 continuation indents, drop/double final newline, CRLF, re-indent to 2/3/8 spaces or tabs, and every pair (global transform x local edit); the parse must succeed with the same span-erased AST.",
   note="Positions inside string-like tokens are data and are not edited; base programs must be on a 4-space grid. Only the listed edit kinds are covered."),
 "C11": dict(engine="ivh", category="exploration", design="DESIGN.md §2 C11",
   technique="bounded exhaustive enumeration of inputs (all chunk strings up to length 4/5, all single-edit neighbours of repository sources, nesting ladders to depth 64) through lex/parse/check/format/emit under catch_unwind and a watchdog",
   text="All strings of <=4 (thorough <=5) chunks over a 32-chunk alphabet mixing raw fragments and whole tokens (1.1M / 34.6M inputs), every prefix, single-character deletion and chunk insertion at token boundaries of the repository's own sources, and nesting/chain ladders to depth 64 (in a child process) run through every front-end stage exactly as the CLI calls them; each stage must return a result or a non-empty diagnostics list, every diagnostic span must lie in the file on char boundaries with start<=end and must render for terminal and editor without panicking. A slice is replayed through the real binary.",
   note="Inputs outside the alphabet / more than one edit away from a repository source are not covered; termination is judged by a 30 s no-progress watchdog."),

 "C04": dict(engine="ivh", category="exploration", design="DESIGN.md §2 C04",
   technique="bounded exhaustive enumeration of operand pairs over a boundary lattice on the real kernels, CPython as reference",
   text="Every pair of a boundary lattice of i64 / f64 operands (all sign, zero-remainder, MIN/-1/MAX, 2^31/2^32/2^53/2^62 neighbourhoods; thorough adds the dense square [-1024,1024]^2) is evaluated on every entry point of both kernel copies (semantic core, runtime library; generic and suffixed) and compared with CPython's //, %, / and with the defining invariants; every zero divisor must raise exactly the documented ZeroDivisionError and no other pair may fail. This is a complete enumeration of a finite operand space, not a proof for all 2^128 pairs: the kernels are branch-on-sign code, so the lattice is chosen to contain every sign/zero/boundary class.",
   note="Trusts CPython as the reference for Python semantics. Operands outside the lattice are not covered."),
 "C05": dict(engine="ivh", category="exploration", design="DESIGN.md §2 C05",
   technique="bounded exhaustive enumeration of (sequence, start, end, step) and range triples on the real kernels, CPython slicing/range as reference",
   text="All strings of <=3 (thorough <=4) scalars over {a, é, 𝄞} and lists of <=4 (5) elements x every index and every (start,end,step) triple from a lattice containing absent, [-6,6] and the i64 extremes, plus every range(a,b,c) over the same lattice observed to a 20-element horizon under a watchdog, are evaluated on both copies of the real helpers and compared with CPython's own slicing, indexing and range, including the documented error texts.",
   note="Trusts CPython. Sequences longer than the bound and scalars outside the 3-letter alphabet (1-, 2- and 4-byte UTF-8) are not covered."),
 "C19": dict(engine="ivh", category="exploration", design="DESIGN.md §2 C19",
   technique="bounded exhaustive enumeration of documents x offsets x positions x spans on the real conversion functions, naive counting as reference",
   text="All documents of <=5 (thorough <=7) scalars over {a, é, 𝄞, LF, CR, space} x every byte offset (boundary, non-boundary, past the end), every position of the bounding box, and every span (empty, reversed, past the end) are pushed through offset_to_position, position_to_offset, span_to_range, compile_error_to_diagnostic and format_error; round trip, strict monotonicity, agreement with counting newlines/characters, in-document ranges with start<=end and absence of panics are checked on every one.",
   note="Reference is counting '\\n' and chars in the prefix; LSP 'character' is taken as Unicode scalars as the module documents. Longer documents are not covered."),
}

checks = []
for p in props:
    c = CHECKS.get(p["id"])
    if not c: continue
    checks.append({
        "property_id": p["id"],
        "quick_cmd": f"./check {p['id']} --tier quick",
        "thorough_cmd": f"./check {p['id']} --tier thorough",
        "evidence_file": f"/verif/evidence/{p['id']}.json",
        "replay_cmd_template": f"./check {p['id']} --replay {{path}}",
        "engine": c["engine"],
        "level_claimed": {"category": c["category"], "text": c["text"], "design_ref": c["design"]},
        "level_note": c["note"],
        "technique": c["technique"],
    })
na = [{"property_id": p["id"], "reason": "check not built yet in this revision of /verif (planned in DESIGN.md §2; bounded exhaustive exploration applies)"}
      for p in props if p["id"] not in CHECKS]
m = {
 "version": 1,
 "setup_cmd": "./setup.sh",
 "hooks": {"guard": "incan_verif", "enable": "none needed: no source hooks exist; every entry point used is already public (RUSTFLAGS=\"--cfg incan_verif\" is reserved)",
           "baseline_off_cmd": "cd /repo && cargo test --workspace --no-fail-fast --offline", "source_commits": [], "add_only": True},
 "engines": [
   {"name": "ivh", "path": "/verif/harness", "serves_properties": sorted(k for k, v in CHECKS.items() if "ivh" in v["engine"]),
    "kind_free_text": "in-process Rust harness linked against /repo's crates; enumerates bounded spaces completely and evaluates the real code on every case"},
   {"name": "pspace", "path": "/verif/pspace", "serves_properties": sorted(k for k, v in CHECKS.items() if "pspace" in v["engine"]),
    "kind_free_text": "Python enumerators (deviation-bounded program spaces), oracles (CPython, documented tables, differential) and the evidence/findings protocol; drives ivh and the real incan CLI"},
 ],
 "checks": checks,
 "not_applicable": na,
 "notes": "Every check rebuilds the harness (path dependencies on /repo) before running, so it always sees the current working tree. Known findings: /verif/known_findings.txt.",
}
json.dump(m, open(os.path.join(V, "MANIFEST.json"), "w"), indent=1, ensure_ascii=False)
print("checks:", [c["property_id"] for c in checks], "not_applicable:", len(na))
