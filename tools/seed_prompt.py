#!/usr/bin/env python3
"""Print the prompt given to an independent sub-agent that seeds a property-breaking change (tools only; not a check)."""
import json, sys
pid, wt = sys.argv[1], sys.argv[2]
variant = sys.argv[3] if len(sys.argv) > 3 else ""
p = next(json.loads(l) for l in open('/verif/properties.jsonl') if json.loads(l)['id'] == pid)
print(f"""You are helping test a verification framework by producing a realistic *seeded defect* for an open-source compiler.

The project is "incan" (dannys-code-corner/incan): a Python-like statically typed language whose compiler (lexer, parser, typechecker, IR lowering, Rust emitter, formatter, LSP) is written in Rust and emits Rust source. You have your own scratch git worktree of it at:

    {wt}

Work ONLY inside that directory. Never read or write /repo or /verif (they are off limits), never commit anything, never push. The machine is offline: always pass --offline to cargo (CARGO_NET_OFFLINE=true). Use CARGO_TARGET_DIR={wt}/target (a warm copy of a debug build is already there). Other agents share the machine: use at most `-j 4` / `--test-threads 4`.

The semantic property you must break:

  Title: {p['title']}
  Statement: {p['statement']}
  Quantified over: {p['quantifier']['text']}
  Files where the mechanisms live: {', '.join(p['anchors']['files'])}

Your task: make ONE small, realistic change to the incan sources (the kind of slip a maintainer could make in a refactor or "optimisation": an off-by-one, a wrong comparison, a dropped branch, a check moved after an await, a missing escape, a cursor advanced too early, a stale cache, two sites that each look fine alone...) such that

  1. the workspace still compiles, and
  2. the existing test suite still passes completely:   cd {wt} && CARGO_NET_OFFLINE=true cargo test --workspace --no-fail-fast --offline -j 4 -- --test-threads 4   (run it and confirm: every test binary must report ok; note the suite includes insta snapshot tests of generated Rust, so changes to emitted text for the snapshot inputs fail), and
  3. the property above is genuinely violated for SOME input / program / schedule / configuration, but
  4. the violation needs something specific to manifest — a particular interleaving, a particular operand class or boundary value, a multi-step sequence, an unusual-but-legal input shape, a particular nesting context, or two cooperating sites — NOT something that ordinary use (the hello-world examples) would expose at once.{(' ' + variant) if variant else ''}

Before changing anything, confirm that the behaviour you are about to break is actually correct on the unmodified tree for your demonstration input (the project is beta software and some things are already broken; a "defect" that was already present does not count). Then write a demonstration — a Rust test file, a small Rust program using the crates, a shell script driving the built `incan` binary ({wt}/target/debug/incan), or an Incan program plus expected output — that FAILS with your change and PASSES without it, and actually run it both ways (use `git diff > /tmp/<unique>.diff; git checkout -- .; ...; git apply /tmp/<unique>.diff` — NEVER use `git stash`: the stash is shared between all worktrees of this repository and other agents are working in sibling worktrees).

Deliver, in the directory {wt}/_seed/ (create it; it is untracked):
  - patch.diff  : `git diff` of your change to tracked files only (must apply with `git apply` to a clean checkout of the same commit; must NOT include the demonstration or anything under _seed/)
  - the demonstration file(s) and a run.sh that runs the demonstration against the worktree as it currently is and exits 0 when the property holds on the demonstrated input and non-zero when it is violated
  - NOTES.md : what you changed and why it looks innocent, what exactly is needed for it to manifest, the exact commands you ran, and the observed outputs with and without the change (including the test-suite summary with the change applied).

Leave the worktree with the change APPLIED (uncommitted) when you finish. In your final message report: the one-line description of the change, what it needs to manifest, and whether all four conditions were confirmed by actually running things. Keep the change minimal (ideally 1-10 lines).""")
