"""C19 – offsets <-> positions: all documents up to a length bound over {a, é, 𝄞, \\n, \\r, ' '} x all offsets, positions, spans.

Enumeration, the real conversions and the (naive counting) reference all run in `ivh pos`; this wrapper turns its
summary into the exit protocol and the evidence file.
"""
import json
import subprocess

from . import common


def run_ivh(args):
    p = subprocess.run([common.IVH] + args, capture_output=True, text=True, encoding="utf-8")
    if p.returncode != 0:
        raise common.MachineryError(f"ivh {' '.join(args)} exited {p.returncode}: {p.stderr[-800:]}")
    return json.loads(p.stdout)


def run(tier):
    common.build()
    out = common.Outcome("C19", tier)
    maxlen = 7 if tier == "thorough" else 5
    r = run_ivh(["pos", "--maxlen", str(maxlen), "--threads", str(common.NCPU)])
    expect_docs = sum(6**k for k in range(maxlen + 1))
    if r["docs"] != expect_docs:
        raise common.MachineryError(f"enumerated {r['docs']} documents, expected {expect_docs}")
    for v in r["violations"]:
        out.fail(v["kind"], {"doc": v["doc"], "detail": v["detail"]})
    if r["known_col_bytes"]:
        key = "terminal-column-counts-bytes"
        case = {"doc": None, "detail": r["known_col_witness"], "count": r["known_col_bytes"]}
        out.fail(key, case)
        if key in out.known_seen:
            out.known_seen[key][0] = r["known_col_bytes"]
    cov = {
        "evaluations": r["evaluations"],
        "distinct_nontrivial": r["classes"],
        "rule": f"all {r['docs']} documents of <= {maxlen} scalars over {{a, é, 𝄞, LF, CR, space}}; per document every byte offset 0..len+2, every position in the "
        "bounding box (lines+1 x maxcol+1), every span (s,e) with s,e <= len+2 through span_to_range, compile_error_to_diagnostic and format_error; "
        "distinct = document class (length, multi-byte/astral content, CR/CRLF, empty lines, final newline, line count)",
        "samples": ["", "a\n", "é𝄞\r\n a", {"doc": "é", "offsets": [0, 1, 2, 3, 4], "positions": "(0..2)x(0..2)", "spans": "(0..4)x(0..4)"}],
        "exhaustive": True,
        "documents": r["docs"],
        "max_len": maxlen,
    }
    return out.finish(
        cov,
        assumptions=[
            "reference = counting '\\n' and chars in the prefix (LSP 'character' counted in Unicode scalars, as the module documents)",
            "positions past the end may be None or clamped (end of line / end of document)",
        ],
    )


def replay(path):
    common.build()
    rec = json.load(open(path, encoding="utf-8"))
    doc = rec["case"]["doc"]
    if doc is None:
        print("no single document recorded:", rec["case"]["detail"])
        return 2
    r = run_ivh(["pos-one", "--doc", json.dumps(doc)])
    print(json.dumps(r, ensure_ascii=False, indent=1))
    return 1 if (r["violations"] or r["known_col_bytes"]) else 0
