# Build environment shared by every engine (sourced by ./check and setup). Same profile for harness and /repo's binary
# so that the two workspaces share compiled dependencies in one target directory.
export CARGO_NET_OFFLINE=true
export CARGO_TARGET_DIR=/verif/.build/target
export CARGO_PROFILE_RELEASE_OPT_LEVEL=1
export CARGO_PROFILE_RELEASE_DEBUG_ASSERTIONS=false
export CARGO_PROFILE_RELEASE_OVERFLOW_CHECKS=false
export CARGO_PROFILE_RELEASE_DEBUG=0
export CARGO_PROFILE_RELEASE_INCREMENTAL=true
export CARGO_PROFILE_RELEASE_CODEGEN_UNITS=64
export CARGO_TERM_COLOR=never
