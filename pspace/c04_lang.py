"""Language-level binding for C04: the source operators // % / (and their compound forms) on the centre of the lattice,
compiled by the real CLI, must print what CPython computes (this exercises operator -> helper selection and promotion)."""
from . import common, pipe, sem

INTS = [-7, -3, -1, 0, 1, 2, 5, 7]
FLOATS = [-2.5, -0.5, 0.0, 0.5, 2.0]


def run(out, tier):
    common.build(need_cli=True)
    pipe.warm()
    decls = (
        "def li_fd(a: int, b: int) -> int:\n    return a // b\n\n\ndef li_md(a: int, b: int) -> int:\n    return a % b\n\n\ndef li_dv(a: int, b: int) -> float:\n    return a / b\n\n\n"
        "def lf_fd(a: float, b: float) -> float:\n    return a // b\n\n\ndef lf_md(a: float, b: float) -> float:\n    return a % b\n\n\ndef lf_dv(a: float, b: float) -> float:\n    return a / b\n\n\n"
        "def lm_fd(a: int, b: float) -> float:\n    return a // b\n\n\ndef lm_md(a: float, b: int) -> float:\n    return a % b\n\n\ndef lm_dv(a: int, b: float) -> float:\n    return a / b\n\n\n"
        "def lc_fd(a: int, b: int) -> int:\n    mut x = a\n    x //= b\n    return x\n\n\ndef lc_md(a: int, b: int) -> int:\n    mut x = a\n    x %= b\n    return x\n\n\n"
        "def lc_dv(a: float, b: int) -> float:\n    mut x = a\n    x /= b\n    return x\n\n\ndef lc_fmd(a: float, b: float) -> float:\n    mut x = a\n    x %= b\n    return x\n"
    )
    drv = []
    n = 0
    for a in INTS:
        for b in INTS:
            if b == 0:
                continue
            drv += [f"println(li_fd({a}, {b}))", f"println(li_md({a}, {b}))", f"println(li_dv({a}, {b}))", f"println(lc_fd({a}, {b}))", f"println(lc_md({a}, {b}))"]
            n += 5
    for a in FLOATS:
        for b in FLOATS:
            if b == 0.0:
                continue
            drv += [f"println(lf_fd({a}, {b}))", f"println(lf_md({a}, {b}))", f"println(lf_dv({a}, {b}))", f"println(lc_fmd({a}, {b}))"]
            n += 4
    for a in INTS:
        for b in FLOATS:
            if b != 0.0:
                drv += [f"println(lm_fd({a}, {b}))", f"println(lm_dv({a}, {b}))"]
                n += 2
            if a != 0:
                drv += [f"println(lm_md({b}, {a}))", f"println(lc_dv({b}, {a}))"]
                n += 2
    u = sem.Unit("c04lang", decls, "\n".join(drv))
    inc, py = sem.pack([u])
    r = pipe.run_program(0, {"prog.incn": inc})
    rc, so, se = sem.run_python(py)
    if rc != 0:
        raise common.MachineryError("C04 language-level reference failed: " + se[-300:])
    if r.stage != "run" or r.exit != 0:
        out.fail("lang:program-did-not-run", {"kind": "lang", "stage": r.stage, "detail": r.detail, "stderr": r.stderr[-500:], "a": 0, "b": 0})
        return {"language_level_lines": 0}
    got = sem.split_frames(r.stdout).get("c04lang", [])
    want = sem.split_frames(so).get("c04lang", [])
    bad = 0
    for k, (g, w) in enumerate(zip(got, want)):
        if not sem.line_equal(g, w):
            bad += 1
            if bad <= 5:
                out.fail("lang:" + drv[k].split("(")[1], {"kind": "lang", "call": drv[k], "printed": g, "reference": w, "a": 0, "b": 0})
    if len(got) != len(want):
        out.fail("lang:line-count", {"kind": "lang", "printed_lines": len(got), "reference_lines": len(want), "a": 0, "b": 0})
    pos = positions(out)
    return {"language_level_lines": n, "language_level_mismatches": bad, **pos}


# operands reaching // and % from every kind of binding (the operator -> helper selection depends on the IR type the
# lowering knows for the operand; a closure parameter has none)
POSITIONS = {
    "local": "    x = a\n    y = b\n    return x {OP} y",
    "closure_left": "    f = (x) => x {OP} b\n    return f(a)",
    "closure_right": "    f = (y) => a {OP} y\n    return f(b)",
    "closure_both": "    f = (x, y) => x {OP} y\n    return f(a, b)",
    "closure_literal_divisor": None,  # built per divisor below
    "list_elements": "    xs = [a, b]\n    return xs[0] {OP} xs[1]",
    "model_fields": "    p = LPair(x=a, y=b)\n    return p.x {OP} p.y",
    "tuple_fields": "    t = (a, b)\n    return t.0 {OP} t.1",
    "comprehension_var": "    rs = [v {OP} b for v in [a]]\n    return rs[0]",
    "loop_var": "    mut r = 0\n    for v in [a]:\n        r = v {OP} b\n    return r",
    "match_binding": "    o: Option[int] = Some(a)\n    match o:\n        case Some(v):\n            return v {OP} b\n        case None:\n            return 0",
    "call_results": "    return lident(a) {OP} lident(b)",
    "nested_expression": "    return (a + 0) {OP} (b * 1)",
    "compound_in_closure": None,
}
# compound assignment `target OP= b`: the parser, the checker and the lowering each rewrite it per kind of target
COMPOUND_TARGETS = {
    "compound_variable": "    mut x = a\n    x {OP}= b\n    return x",
    "compound_list_element": "    mut xs = [a, a]\n    xs[1] {OP}= b\n    return xs[1]",
    "compound_dict_value": "    mut d = {\"k\": a}\n    d[\"k\"] {OP}= b\n    return d[\"k\"]",
    "compound_nested_subscript": "    mut g = [[a, a], [a, a]]\n    g[1][0] {OP}= b\n    return g[1][0]",
    "compound_field": "    mut h = LHold{T}(v=a)\n    h.v {OP}= b\n    return h.v",
    "compound_field_of_element": "    mut hs = [LHold{T}(v=a)]\n    hs[0].v {OP}= b\n    return hs[0].v",
    "compound_element_in_loop": "    mut xs = [a, a]\n    for i in range(2):\n        xs[i] {OP}= b\n    return xs[1]",
}


def positions(out):
    from . import c01

    pre = "model LPair:\n    x: int\n    y: int\n\n\ndef lident(v: int) -> int:\n    return v\n\n\n"
    units = []
    for pk, body in POSITIONS.items():
        for on, op in (("fd", "//"), ("md", "%"), ("dv", "/")):
            name = f"lp_{pk}_{on}"
            rt = "float" if op == "/" else "int"
            if op == "/" and pk in ("loop_var", "match_binding"):
                continue  # these bodies initialise / fall back with an int literal
            if pk == "closure_literal_divisor":
                decl = f"def {name}(a: int, b: int) -> {rt}:\n    f = (x) => x {op} 3\n    g = (x) => x {op} -3\n    return f(a) * 100 + g(a)"
            elif pk == "compound_in_closure":
                continue
            else:
                decl = f"def {name}(a: int, b: int) -> {rt}:\n" + body.replace("{OP}", op)
            drv = "\n".join(f"println({name}({a}, {b}))" for a in INTS for b in INTS if b != 0)
            units.append(sem.Unit(name, (pre if pk in ("model_fields", "call_results") else "") + decl, drv, tags=("c04lang", pk, on)))
    hold = "class LHoldI:\n    v: int\n\n\nclass LHoldF:\n    v: float\n\n\n"
    for pk, body in COMPOUND_TARGETS.items():
        for on, op in (("fd", "//"), ("md", "%"), ("dv", "/")):
            for tn, ty, vals in (("int", "int", INTS), ("float", "float", [-7.5, -2.0, 0.5, 2.0, 9.0])):
                if op == "/" and tn == "int":
                    continue  # `/=` on an int target is a type error by the numeric rules
                name = f"lp_{pk}_{on}_{tn}"
                decl = f"def {name}(a: {ty}, b: {ty}) -> {ty}:\n" + body.replace("{OP}", op).replace("{T}", "I" if tn == "int" else "F")
                drv = "\n".join(f"println({name}({a}, {b}))" for a in vals for b in vals if b != 0)
                units.append(sem.Unit(name, (hold if "field" in pk else "") + decl, drv, tags=("c04lang", f"{pk}:{tn}", on)))
    # declarations shared by several units must not be duplicated in one pack: build each unit as its own program
    chk = c01.check_units(units)
    acc = [u for u, c in zip(units, chk) if c["check"]["status"] == "ok"]
    ran, failed = c01.build_packs([[u] for u in acc])
    exp = c01.expected([u for u in acc if u.name in ran])
    n_ok = 0
    for name, (frames, result) in ran.items():
        u = next(x for x in units if x.name == name)
        why = c01.compare(u, frames, result, exp[name])
        if why and why.startswith("MACHINERY"):
            raise common.MachineryError(f"{name}: {why}")
        if why:
            out.fail(f"lang-position:{u.tags[1]}:{u.tags[2]}", {"kind": "lang", "unit": name, "why": why, "program": sem.pack([u])[0], "a": 0, "b": 0})
        else:
            n_ok += 1
    return {"operand_positions": len(units), "operand_positions_accepted": len(acc), "operand_positions_matching": n_ok, "operand_positions_not_built": sorted(failed)}
