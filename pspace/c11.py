"""C11 – the front end is total and its diagnostics are well-formed.

Bounded exhaustive enumeration (in `ivh total`) of: all chunk strings up to a length, all single-edit neighbours of the
repository's own sources (prefixes, deletions, chunk insertions at token boundaries), nesting ladders to depth 64.
Every input runs through lex, parse, check, format and --emit-rust under catch_unwind + watchdog; every diagnostic is
validated (span inside the file, on char boundaries, start <= end, renders for terminal and editor).
"""
import json
import re
import subprocess
from multiprocessing import Pool

from . import common, corpus


def _run(args):
    cmd, label = args
    p = subprocess.run([common.IVH] + cmd, capture_output=True, text=True, encoding="utf-8")
    problems, summary = [], None
    for line in p.stdout.splitlines():
        if not line.startswith("{"):
            continue
        r = json.loads(line)
        if r.get("summary"):
            summary = r
        else:
            problems.append(r)
    hang = [l for l in p.stderr.splitlines() if l.startswith("HANG")]
    if hang:
        # the no-progress watchdog fired: confirm the input alone (a loaded machine must not turn slowness into an alarm)
        src = hang[0].split("\t", 2)[-1]
        try:
            src_text = json.loads(src) if src.startswith('"') else src
        except ValueError:
            src_text = src
        q = subprocess.run([common.IVH, "total", "--mode", "stdin"], input=json.dumps(src_text) + "\n", capture_output=True, text=True, encoding="utf-8", timeout=600)
        if q.returncode == 0 and "HANG" not in q.stderr:
            raise common.MachineryError(f"watchdog fired in {label} but the input terminates when run alone (machine overloaded?): {src[:200]!r}; the shard was not completed - re-run")
        problems.append({"mode": label, "input": src, "problem": "did not terminate (watchdog, confirmed alone)"})
        summary = summary or {"inputs": 0, "lex_ok": 0, "parse_ok": 0, "check_ok": 0, "emit_ok": 0, "fmt_ok": 0, "outcomes": []}
    elif p.returncode != 0:
        # abort / stack overflow / signal: the last in-flight input is unknown here, re-run is done by the caller
        problems.append({"mode": label, "input": None, "problem": f"harness process died (exit {p.returncode}): {p.stderr[-300:]}"})
        summary = summary or {"inputs": 0, "lex_ok": 0, "parse_ok": 0, "check_ok": 0, "emit_ok": 0, "fmt_ok": 0, "outcomes": []}
    if summary is None:
        raise common.MachineryError(f"no summary from ivh {' '.join(cmd)}: {p.stderr[-300:]}")
    return label, problems, summary


def key_of(problem):
    m = re.sub(r"\d+", "N", problem)
    m = re.sub(r"'[^']*'", "'_'", m)
    return m[:100]


def run(tier):
    common.build()
    out = common.Outcome("C11", tier)
    n = common.NCPU
    thorough = tier == "thorough"
    files = corpus.files()
    if not thorough:
        files = [f for i, f in enumerate(files) if i % 3 == 0]
    lst = corpus.write_list(files, "c11_files.txt")
    max_chunks = 5 if thorough else 4
    sc, st = (1, 1) if thorough else (2, 4)
    jobs = []
    for i in range(n):
        jobs.append((["total", "--mode", "chunks", "--max", str(max_chunks), "--shard", f"{i}/{n}"], "chunks"))
        jobs.append((["total", "--mode", "neighbours", "--files", lst, "--stride-char", str(sc), "--stride-tok", str(st), "--shard", f"{i}/{n}"], "neighbours"))
    jobs.append((["total", "--mode", "nest", "--depth", "64"], "nest"))
    jobs.append((["total", "--mode", "literals"], "literals"))
    jobs.append((["total", "--mode", "arity"], "arity"))
    jobs.append((["total", "--mode", "idents"], "idents"))
    with Pool(n) as pool:
        res = pool.map(_run, jobs)
    tot = {"inputs": 0, "lex_ok": 0, "parse_ok": 0, "check_ok": 0, "emit_ok": 0, "fmt_ok": 0}
    by_mode = {}
    outcomes = set()
    samples = []
    for label, problems, s in res:
        for k in tot:
            tot[k] += s[k]
        by_mode[label] = by_mode.get(label, 0) + s["inputs"]
        outcomes |= set(s["outcomes"])
        for pr in problems:
            out.fail(key_of(pr["problem"]), {"mode": pr["mode"], "input": pr["input"], "problem": pr["problem"]})
    # binding to the real CLI: a slice of inputs that do not parse must make `incan --check/--parse/fmt` exit 1 (not 101/signal)
    cli = cli_slice(out)
    cli.update(multifile_locations(out))
    cov = {
        "evaluations": tot["inputs"],
        "distinct_nontrivial": len(outcomes),
        "rule": f"all strings of <= {max_chunks} chunks over a 32-chunk alphabet (raw fragments and whole tokens); for {len(files)} repository sources every "
        f"{sc}-th prefix / single-char deletion, each of the 32 chunks inserted at every {st}-th token boundary, and at every {st}-th token the deletion of 1, 2 and 3 consecutive tokens, "
        "its duplication and its swap with the next token; nesting ladders (brackets, blocks, unary, calls, "
        "types, f-strings, chains) to depth 64; 14 type names x 8 argument lists (every arity 0..4, bare, nested) in 46 consuming positions (match with every "
        "constructor pattern, ?, for, index, methods, unpacking, tuple fields, returns of every literal kind, annotations, fields, enum payloads, newtypes, comprehensions, "
        "operators, calls, nested in List/Dict/Option, trait methods, const, await); 58 characters (one or more per Unicode class: letters, non-ASCII digits, other numbers, letter numbers, combining marks, connectors, symbols, astral, format characters, separators, ASCII punctuation) as an identifier character in 5 positions of a name used consistently in every binding position of an otherwise well-typed program; 75 two-file projects (what an imported declaration is built from x dependency prefix x how the entry file uses it) through the real CLI, every printed location checked against the file it names; 96 unusual literal / identifier / operator tokens in 26 expression, pattern, type and declaration positions; distinct = distinct (stage statuses, normalised first diagnostic) outcome",
        "samples": ["def f() -> int:(", "match x:\n    case \"s\"=>0", {"file": files[0], "edit": "delete char 17"}],
        "exhaustive": True,
        "inputs_by_mode": by_mode,
        "reached": {k: v for k, v in tot.items() if k != "inputs"},
        "cli_slice": cli,
    }
    return out.finish(
        cov,
        assumptions=[
            "inputs outside the chunk alphabet / beyond one edit from a repository source are not covered",
            "termination is judged by a 30 s no-progress watchdog",
            "--emit-rust is exercised through IrCodegen::try_generate exactly as cli::commands::emit_rust calls it; a slice is replayed through the real binary",
        ],
    )


def multifile_locations(out):
    """Diagnostics of multi-file projects: every `--> file:line:col` the real CLI prints must name a file of the project and a
    position inside it. Projects: an entry file that uses an imported const / function / model in a const initializer, a
    function body or an annotation, x what the dependency's declaration is built from (literal, private consts, string
    concatenation, an unknown name), x a long or short prefix in the dependency, x an error or none in the entry file."""
    import itertools
    import os
    import shutil
    import tempfile

    common.build(need_cli=True)
    dep_defs = {
        "literal": "pub const MAX_ITEMS = 40\n",
        "private_consts": "const BASE = 10\nconst SCALE = 4\npub const MAX_ITEMS = BASE * SCALE\n",
        "private_str_consts": 'const HEAD = "a"\nconst TAIL = "b"\npub const MAX_ITEMS = HEAD + TAIL\n',
        "unknown_name": "pub const MAX_ITEMS = NOWHERE + 1\n",
        "function": "def hidden() -> int:\n    return 1\n\n\npub def MAX_ITEMS() -> int:\n    return hidden() + nope\n",
    }
    prefixes = {"short": "", "long_docstring": '"""' + "Limits of the system. " * 20 + '"""\n\n', "many_lines": "# c\n" * 40}
    uses = {
        "const_initializer": "from limits import MAX_ITEMS\n\n\nconst K = MAX_ITEMS\n\n\ndef main() -> None:\n    println(1)\n",
        "const_expression": "from limits import MAX_ITEMS\n\n\nconst K = MAX_ITEMS + 1\nconst L = [MAX_ITEMS, K]\n\n\ndef main() -> None:\n    println(1)\n",
        "function_body": "from limits import MAX_ITEMS\n\n\ndef main() -> None:\n    x = MAX_ITEMS\n    println(nope_in_main)\n",
        "annotation_mismatch": 'from limits import MAX_ITEMS\n\n\ndef main() -> None:\n    x: str = MAX_ITEMS + "é"\n',
        "alias": "from limits import MAX_ITEMS as CAP\n\n\nconst K = CAP\n\n\ndef main() -> None:\n    println(K)\n",
    }
    n_loc = n_runs = 0
    root = tempfile.mkdtemp(dir=common.BUILD, prefix="c11mf")
    env = {"PATH": os.environ.get("PATH", ""), "RUST_LOG": "off"}
    for (dk, dep), (pk, pre), (uk, use) in itertools.product(dep_defs.items(), prefixes.items(), uses.items()):
        d = os.path.join(root, f"{dk}_{pk}_{uk}")
        os.makedirs(d)
        files = {"main.incn": use, "limits.incn": pre + dep}
        for f, t in files.items():
            open(os.path.join(d, f), "w", encoding="utf-8").write(t)
        for flag in (["--check"], ["--emit-rust"]):
            r = subprocess.run([common.INCAN, "--no-banner", "--color", "never"] + flag + ["main.incn"], cwd=d, env=env, capture_output=True, text=True, timeout=120)
            n_runs += 1
            text = re.sub(r"\x1b\[[0-9;]*m", "", r.stdout + r.stderr)
            case = {"mode": "multi-file", "input": json.dumps(files), "dependency": dk, "prefix": pk, "use": uk, "flag": flag[0]}
            if r.returncode not in (0, 1):
                out.fail("multifile-abnormal-exit", {**case, "problem": f"incan {flag[0]} exited {r.returncode}: {text[-300:]}"})
                continue
            for fname, line, col in re.findall(r"--> (\S+?):(\d+):(\d+)", text):
                n_loc += 1
                base = os.path.basename(fname)
                if base not in files:
                    out.fail("multifile-diagnostic-names-a-file-outside-the-project", {**case, "problem": f"location {fname}:{line}:{col}"})
                    continue
                lines = files[base].split("\n")
                ln, cl = int(line), int(col)
                if ln < 1 or ln > len(lines) or cl < 1 or cl > len(lines[ln - 1]) + 1:
                    out.fail("multifile-diagnostic-location-outside-the-file", {**case, "problem": f"location {base}:{line}:{col} but the file has {len(lines)} lines" + (f", line {ln} has {len(lines[ln - 1])} characters" if 1 <= ln <= len(lines) else "") + f"; output: {text[-400:]}"})
    shutil.rmtree(root, ignore_errors=True)
    # the same projects in-process: every diagnostic for the entry file must have a span inside the entry text (the CLI clamps
    # a span past the end to the last line, which hides a diagnostic that belongs to another file)
    from . import serve

    combos = list(itertools.product(dep_defs.items(), prefixes.items(), uses.items()))
    reqs = [{"id": i, "op": "project", "src": use, "deps": [{"name": "limits", "src": pre + dep}]} for i, ((dk, dep), (pk, pre), (uk, use)) in enumerate(combos)]
    pres = serve.run_requests(reqs)
    n_diag = 0
    for i, ((dk, dep), (pk, pre), (uk, use)) in enumerate(combos):
        r = pres[i]
        case = {"mode": "multi-file", "input": json.dumps({"main.incn": use, "limits.incn": pre + dep}), "dependency": dk, "prefix": pk, "use": uk}
        if r.get("crashed") or r.get("panic"):
            out.fail("multifile-checker-panicked", {**case, "problem": "type checker panicked on a two-file project: " + str(r.get("panic") or r.get("stderr"))[:200]})
            continue
        n_diag += len(r.get("errs") or [])
        for pr in r.get("problems") or []:
            out.fail("multifile-" + key_of(pr), {**case, "problem": pr + " (diagnostic reported for the entry file of a two-file project)"})
    return {"multifile_runs": n_runs, "multifile_locations_checked": n_loc, "multifile_diagnostics_validated_in_process": n_diag}


def cli_slice(out):
    import os
    import tempfile

    common.build(need_cli=True)
    inputs = ["def f(", "x = = 1\n", "def f() -> int:\n\treturn \"\n", "type A = newtype int\n\ndef main() -> None:\n    a = A()\n", "é" * 3 + "\n", "def f() -> None:\n        x = 1\n    y = 2\n"]
    n_ok = 0
    with tempfile.TemporaryDirectory(dir=common.BUILD) as d:
        for i, src in enumerate(inputs):
            p = os.path.join(d, f"t{i}.incn")
            open(p, "w", encoding="utf-8").write(src)
            for flag in (["--check"], ["--parse"], ["--emit-rust"], ["fmt", "--check"]):
                r = subprocess.run([common.INCAN, "--no-banner"] + flag + [p], capture_output=True, text=True)
                if r.returncode not in (0, 1):
                    out.fail("cli-abnormal-exit", {"mode": "cli", "input": src, "problem": f"incan {' '.join(flag)} exited {r.returncode}: {r.stderr[-200:]}"})
                else:
                    n_ok += 1
    return {"runs": n_ok}


def replay(path):
    common.build()
    rec = json.load(open(path, encoding="utf-8"))
    src = rec["case"]["input"]
    if rec["case"].get("mode") == "multi-file":
        from . import serve

        files = json.loads(src)
        r = serve.run_requests([{"id": 0, "op": "project", "src": files["main.incn"], "deps": [{"name": "limits", "src": files["limits.incn"]}]}])[0]
        print(json.dumps(r, indent=1, ensure_ascii=False))
        return 1 if (r.get("problems") or r.get("panic") or r.get("crashed")) else 0
    if src is None:
        print("no input recorded")
        return 2
    p = subprocess.run([common.IVH, "total", "--mode", "stdin"], input=json.dumps(src) + "\n", capture_output=True, text=True, encoding="utf-8")
    print(p.stdout)
    probs = [l for l in p.stdout.splitlines() if l.startswith("{") and not json.loads(l).get("summary")]
    return 1 if probs or p.returncode != 0 else 0
