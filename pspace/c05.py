"""C05 – indexing, slicing, range: exhaustive lattice, CPython's own slicing/indexing/range as oracle."""
import subprocess
from multiprocessing import Pool

from . import common

HORIZON = 20
E_STR_IDX = "IndexError: string index out of range"
E_STEP0 = "ValueError: slice step cannot be zero"
E_RANGE0 = "ValueError: range() arg 3 must not be zero"
BIG = 2**31


def po(s):
    return None if s == "_" else int(s)


def band(v):
    if v is None:
        return "_"
    if abs(v) >= BIG:
        return "H+" if v > 0 else "H-"
    return "0" if v == 0 else ("+" if v > 0 else "-")


def rel(v, n):
    """position of an index relative to a sequence of length n"""
    if v is None:
        return "_"
    if abs(v) >= BIG:
        return "H+" if v > 0 else "H-"
    if v >= n:
        return ">=n"
    if v < -n:
        return "<-n"
    return "in+" if v >= 0 else "in-"


def check_line(line, fails, classes, counters):
    p = line.rstrip("\n").split("\t")
    kind = p[0]
    if kind == "sidx":
        s, i = p[1], int(p[2])
        core, std = p[3], p[4]
        counters["evals"] += 2
        classes.add(("sidx", len(s), rel(i, len(s))))
        try:
            e = s[i]
            ec, es = "S" + e, "S" + e
        except IndexError:
            ec, es = "E" + E_STR_IDX, "P" + E_STR_IDX
        if core != ec:
            fails.append(("sidx:core.str_char_at", {"kind": kind, "s": s, "i": i, "entry": "core.str_char_at", "observed": core, "expected": ec}))
        if std != es:
            fails.append(("sidx:str_index", {"kind": kind, "s": s, "i": i, "entry": "str_index", "observed": std, "expected": es}))
        return
    if kind == "sslice":
        s, a, b, c = p[1], po(p[2]), po(p[3]), po(p[4])
        core, std = p[5], p[6]
        counters["evals"] += 2
        classes.add(("sslice", len(s), rel(a, len(s)), rel(b, len(s)), band(c)))
        if c == 0:
            ec, es = "E" + E_STEP0, "P" + E_STEP0
        else:
            e = s[a:b:c]
            ec, es = "S" + e, "S" + e
        big = any(v is not None and abs(v) >= BIG for v in (a, b, c))
        tag = ":extreme" if big else ""
        if core != ec:
            fails.append((f"sslice:core.str_slice{tag}", {"kind": kind, "s": s, "start": a, "end": b, "step": c, "entry": "core.str_slice", "observed": core, "expected": ec}))
        if std != es:
            fails.append((f"sslice:str_slice{tag}", {"kind": kind, "s": s, "start": a, "end": b, "step": c, "entry": "str_slice", "observed": std, "expected": es}))
        return
    if kind == "lidx":
        n, i = int(p[1]), int(p[2])
        g, gm = p[3], p[4]
        counters["evals"] += 2
        classes.add(("lidx", n, rel(i, n)))
        try:
            e = str(list(range(n))[i])
        except IndexError:
            e = f"PIndexError: index {i} out of range for list of length {n}"
        for name, v in (("list_get", g), ("list_get_mut", gm)):
            if v != e:
                fails.append((f"lidx:{name}", {"kind": kind, "n": n, "i": i, "entry": name, "observed": v, "expected": e}))
        return
    if kind == "lslice":
        n, a, b, c = int(p[1]), po(p[2]), po(p[3]), po(p[4])
        obs = p[5]
        counters["evals"] += 1
        classes.add(("lslice", n, rel(a, n), rel(b, n), band(c)))
        if c == 0:
            e = "P" + E_STEP0
        else:
            e = "L" + ",".join(str(x) for x in list(range(n))[a:b:c])
        big = any(v is not None and abs(v) >= BIG for v in (a, b, c))
        tag = ":extreme" if big else ""
        if obs != e:
            fails.append((f"lslice:list_slice{tag}", {"kind": kind, "n": n, "start": a, "end": b, "step": c, "entry": "list_slice", "observed": obs, "expected": e}))
        return
    if kind == "range":
        a, b, c = int(p[1]), int(p[2]), int(p[3])
        obs = p[4]
        counters["evals"] += 1
        if c == 0:
            e = "P" + E_RANGE0
            classes.add(("range", "step0"))
        else:
            r = range(a, b, c)
            e = "L" + ",".join(str(x) for x in r[:HORIZON])
            try:
                ln = min(len(r), 3)
            except OverflowError:
                ln = 3
            classes.add(("range", band(a), band(b), band(c), ln))
        big = any(abs(v) >= BIG for v in (a, b, c))
        tag = ":extreme" if big else ""
        if obs != e:
            fails.append((f"range:iter.range{tag}", {"kind": kind, "a": a, "b": b, "c": c, "entry": "iter::range", "observed": obs, "expected": e, "horizon": HORIZON}))
        return
    if kind == "dict":
        keys = p[1].split(",") if p[1] else []
        probe = p[2]
        counters["evals"] += 2
        d = {k: i for i, k in enumerate(keys)}
        classes.add(("dict", len(keys), probe in d))
        e = str(d[probe]) if probe in d else f"PKeyError: '{probe}' not found in dict"
        # int-keyed dict: keys are byte lengths; recompute with byte lengths to mirror the harness
        di = {len(k.encode()): i for i, k in enumerate(keys)}
        ei = str(di[len(probe.encode())]) if len(probe.encode()) in di else f"PKeyError: '{len(probe.encode())}' not found in dict"
        if p[3] != e:
            fails.append(("dict:dict_get[str]", {"kind": kind, "keys": keys, "probe": probe, "entry": "dict_get<String>", "observed": p[3], "expected": e}))
        if p[4] != ei:
            fails.append(("dict:dict_get[int]", {"kind": kind, "keys": keys, "probe": probe, "entry": "dict_get<i64>", "observed": p[4], "expected": ei}))
        return
    raise common.MachineryError(f"unparsable harness line: {line!r}")


def _shard(args):
    tier, i, n = args
    proc = subprocess.Popen(
        [common.IVH, "seq", "--tier", tier, "--shard", f"{i}/{n}"], stdout=subprocess.PIPE, stderr=subprocess.PIPE, text=True, encoding="utf-8"
    )
    fails, classes = [], set()
    counters = {"evals": 0, "lines": 0, "declared": None, "lattice": None}
    samples = []
    for line in proc.stdout:
        if line.startswith("#"):
            if line.startswith("#count"):
                counters["declared"] = int(line.split("\t")[1])
            elif line.startswith("#lattice"):
                counters["lattice"] = line.strip()
            continue
        counters["lines"] += 1
        if counters["lines"] in (1, 7000, 30000):
            samples.append(line.rstrip("\n"))
        check_line(line, fails, classes, counters)
    err = proc.stderr.read()
    rc = proc.wait()
    hang = [l for l in err.splitlines() if l.startswith("HANG")]
    if hang:
        # the watchdog names the tuple that did not return: a non-terminating loop is a violation of C05 itself
        fails.append(("hang", {"kind": "hang", "detail": hang[0]}))
    elif rc != 0 or counters["declared"] != counters["lines"]:
        raise common.MachineryError(f"ivh seq shard {i} exited {rc}, declared={counters['declared']} lines={counters['lines']}: {err[-500:]}")
    # keep one case per key and up to 200 overall, simplest first (shortest sequence, smallest magnitudes)
    return fails, classes, counters, samples


def summarize(fails, limit_per_key=3):
    by = {}
    for k, c in fails:
        by.setdefault(k, []).append(c)

    def size(c):
        return sum(abs(v) if isinstance(v, int) else len(str(v)) for v in c.values() if v is not None and not isinstance(v, (list, dict)))

    out = []
    for k, cs in by.items():
        cs.sort(key=size)
        out.append((k, len(cs), cs[:limit_per_key]))
    return out


def run(tier):
    common.build()
    out = common.Outcome("C05", tier)
    n = common.NCPU
    with Pool(n) as pool:
        res = pool.map(_shard, [(tier, i, n) for i in range(n)])
    classes = set()
    evals = lines = 0
    allf = []
    samples = []
    lattice = None
    for fails, cl, c, s in res:
        classes |= cl
        evals += c["evals"]
        lines += c["lines"]
        lattice = c["lattice"]
        samples += s[:1]
        allf += fails
    per_key = {}
    for key, cnt, cases in summarize(allf):
        per_key[key] = cnt
        for case in cases:
            out.fail(key, case)
        # account for the remaining cases of a known class in the count
        if key in out.known_seen:
            out.known_seen[key][0] = cnt
    extra = {}
    try:
        from . import c05_lang

        extra = c05_lang.run(out, tier)
    except ImportError:
        pass
    cov = {
        "evaluations": evals,
        "distinct_nontrivial": len(classes),
        "rule": "all strings of length <=3 (quick) / <=4 (thorough) over {a, é, 𝄞} and lists [0..n), every index in J and every (start,end,step) in J^3 "
        "(J = absent, [-6,6], MIN, MIN+1, ±2^31, ±2^32, MAX-1, MAX), every range(a,b,c) over J^3 observed up to a horizon of 20 elements, dict lookups; "
        "both copies (semantic core, runtime) of every entry point; distinct = class by sequence length x index position relative to the length x step band",
        "samples": samples[:3],
        "exhaustive": True,
        "operand_tuples": lines,
        "lattice": lattice,
        "failing_results_by_class": per_key,
    }
    cov.update(extra)
    return out.finish(
        cov,
        assumptions=[
            "CPython 3 str/list slicing, indexing and range() are the reference (Python str indexes code points = Unicode scalars)",
            "range is observed through its first 20 elements (a wrapped cursor shows up as extra elements within the horizon)",
            "a tuple that does not return within the watchdog period is reported as a hang",
        ],
    )


def replay(path):
    import json

    common.build()
    rec = json.load(open(path, encoding="utf-8"))
    c = rec["case"]
    k = c["kind"]
    o = lambda v: "_" if v is None else str(v)
    if k == "sidx":
        a = [c["s"], str(c["i"])]
    elif k == "sslice":
        a = [c["s"], o(c["start"]), o(c["end"]), o(c["step"])]
    elif k == "lidx":
        a = [str(c["n"]), str(c["i"])]
    elif k == "lslice":
        a = [str(c["n"]), o(c["start"]), o(c["end"]), o(c["step"])]
    elif k == "range":
        a = [str(c["a"]), str(c["b"]), str(c["c"])]
    elif k == "dict":
        a = [",".join(c["keys"]), c["probe"]]
    else:
        print("cannot replay", k)
        return 2
    line = subprocess.run([common.IVH, "seq-one", k] + a, capture_output=True, text=True, encoding="utf-8").stdout
    fails, classes, counters = [], set(), {"evals": 0}
    check_line(line, fails, classes, counters)
    print("observed:", line.rstrip("\n"))
    for kk, cs in fails:
        print("FAIL", kk, cs)
    return 1 if fails else 0
