"""Language-level binding for C04: the source operators // % / (and their compound forms) on the centre of the lattice,
compiled by the real CLI, must print what CPython computes (this exercises operator -> helper selection and promotion)."""
from . import common, pipe, sem

INTS = [-7, -3, -1, 0, 1, 2, 5, 7]
FLOATS = [-2.5, -0.5, 0.0, 0.5, 2.0]


def run(out, tier):
    common.build(need_cli=True)
    pipe.warm()
    decls = (
        "def li_fd(a: int, b: int) -> int:\n    return a // b\n\n\ndef li_md(a: int, b: int) -> int:\n    return a % b\n\n\ndef li_dv(a: int, b: int) -> float:\n    return a / b\n\n\n"
        "def lf_fd(a: float, b: float) -> float:\n    return a // b\n\n\ndef lf_md(a: float, b: float) -> float:\n    return a % b\n\n\ndef lf_dv(a: float, b: float) -> float:\n    return a / b\n\n\n"
        "def lm_fd(a: int, b: float) -> float:\n    return a // b\n\n\ndef lm_md(a: float, b: int) -> float:\n    return a % b\n\n\ndef lm_dv(a: int, b: float) -> float:\n    return a / b\n\n\n"
        "def lc_fd(a: int, b: int) -> int:\n    mut x = a\n    x //= b\n    return x\n\n\ndef lc_md(a: int, b: int) -> int:\n    mut x = a\n    x %= b\n    return x\n\n\n"
        "def lc_dv(a: float, b: int) -> float:\n    mut x = a\n    x /= b\n    return x\n\n\ndef lc_fmd(a: float, b: float) -> float:\n    mut x = a\n    x %= b\n    return x\n"
    )
    drv = []
    n = 0
    for a in INTS:
        for b in INTS:
            if b == 0:
                continue
            drv += [f"println(li_fd({a}, {b}))", f"println(li_md({a}, {b}))", f"println(li_dv({a}, {b}))", f"println(lc_fd({a}, {b}))", f"println(lc_md({a}, {b}))"]
            n += 5
    for a in FLOATS:
        for b in FLOATS:
            if b == 0.0:
                continue
            drv += [f"println(lf_fd({a}, {b}))", f"println(lf_md({a}, {b}))", f"println(lf_dv({a}, {b}))", f"println(lc_fmd({a}, {b}))"]
            n += 4
    for a in INTS:
        for b in FLOATS:
            if b != 0.0:
                drv += [f"println(lm_fd({a}, {b}))", f"println(lm_dv({a}, {b}))"]
                n += 2
            if a != 0:
                drv += [f"println(lm_md({b}, {a}))", f"println(lc_dv({b}, {a}))"]
                n += 2
    u = sem.Unit("c04lang", decls, "\n".join(drv))
    inc, py = sem.pack([u])
    r = pipe.run_program(0, {"prog.incn": inc})
    rc, so, se = sem.run_python(py)
    if rc != 0:
        raise common.MachineryError("C04 language-level reference failed: " + se[-300:])
    if r.stage != "run" or r.exit != 0:
        out.fail("lang:program-did-not-run", {"kind": "lang", "stage": r.stage, "detail": r.detail, "stderr": r.stderr[-500:], "a": 0, "b": 0})
        return {"language_level_lines": 0}
    got = sem.split_frames(r.stdout).get("c04lang", [])
    want = sem.split_frames(so).get("c04lang", [])
    bad = 0
    for k, (g, w) in enumerate(zip(got, want)):
        if not sem.line_equal(g, w):
            bad += 1
            if bad <= 5:
                out.fail("lang:" + drv[k].split("(")[1], {"kind": "lang", "call": drv[k], "printed": g, "reference": w, "a": 0, "b": 0})
    if len(got) != len(want):
        out.fail("lang:line-count", {"kind": "lang", "printed_lines": len(got), "reference_lines": len(want), "a": 0, "b": 0})
    return {"language_level_lines": n, "language_level_mismatches": bad}
