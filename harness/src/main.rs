//! ivh – in-process verification harness linked against /repo's crates.
//!
//! Every subcommand enumerates a bounded space completely and evaluates the *real* code on each case. Oracles that need
//! CPython live on the Python side (pspace/); oracles that are naive counting live next to the enumeration.
mod frontend;
mod kernels;
mod layout;
mod lspx;
mod positions;
mod totality;
mod typing;
mod util;

fn main() {
    let args: Vec<String> = std::env::args().skip(1).collect();
    if args.is_empty() {
        eprintln!("usage: ivh <subcommand> ...");
        std::process::exit(2);
    }
    let rest = &args[1..];
    match args[0].as_str() {
        "num" => kernels::run_num(rest),
        "num-one" => kernels::run_num_one(rest),
        "seq" => kernels::run_seq(rest),
        "seq-one" => kernels::run_seq_one(rest),
        "pos" => positions::run_pos(rest),
        "pos-one" => positions::run_pos_one(rest),
        "serve" => frontend::run_serve(rest),
        "total" => totality::run_total(rest),
        "layout" => layout::run_layout(rest),
        "lspx" => lspx::run_lspx(rest),
        "lspx-one" => lspx::run_lspx_one(rest),
        other => {
            eprintln!("unknown subcommand {other}");
            std::process::exit(2);
        }
    }
}
