"""C04 – arithmetic kernels: exhaustive lattice, CPython as oracle.

The Rust side (`ivh num`) only observes: one line per operand pair with the value or the panic message of every entry
point (semantic core and runtime library copies, generic and suffixed). Everything is decided here, with native Python
integers/floats.
"""
import math
import struct
import subprocess
from multiprocessing import Pool

from . import common

ZDE = "PZeroDivisionError: float division by zero"
MIN = -(2**63)


def f2x(v):
    return "x%016x" % struct.unpack("<Q", struct.pack("<d", v))[0]


def x2f(s):
    return struct.unpack("<d", struct.pack("<Q", int(s[1:], 16)))[0]


def band_i(v):
    a = abs(v)
    if a <= 64:
        return "s"
    if a <= 1024:
        return "d"
    for e in (31, 32, 53, 62):
        if abs(a - 2**e) <= 1:
            return f"2^{e}"
    return "ext"


def band_f(v):
    if v == 0:
        return "z-" if math.copysign(1, v) < 0 else "z+"
    m, e = math.frexp(abs(v))
    if e < -1000:
        return "sub"
    if e > 1000:
        return "huge"
    if e > 53:
        return "big"
    if e < -20:
        return "tiny"
    return "mid" if v != int(v) else "int"


def sgn(v):
    return "-" if v < 0 else ("0" if v == 0 else "+")


def py_fmod_expected(a, b):
    """CPython's float %, and whether the pair is inside the alphabet (exact result representable ⇒ |r| < |b|)."""
    r = a % b
    inside = abs(r) < abs(b)
    return r, inside


def feq_mod(obs, exp):
    """Equality for float % results: bit-exact against CPython, including the sign of a zero remainder (the sign rule:
    the result has the sign of the divisor)."""
    return obs == f2x(exp)


def floor_quot(a, b):
    """floor of the IEEE quotient, as a float (sign of zero preserved as IEEE floor does)."""
    q = a / b
    if q == 0.0 or math.isinf(q) or math.isnan(q) or abs(q) >= 2.0**53:
        return q
    return float(math.floor(q))


def check_line(line, fails, classes, counters):
    p = line.rstrip("\n").split("\t")
    kind = p[0]
    if kind == "ii":
        a, b = int(p[1]), int(p[2])
        cm, cf, sm, sf, sd, sm64, sf64 = p[3:10]
        counters["evals"] += 7 if b != 0 else 5
        if b == 0:
            classes.add(("ii", sgn(a), "zero-div"))
            for name, v in (("py_mod", sm), ("py_floor_div", sf), ("py_div", sd), ("py_mod_i64", sm64), ("py_floor_div_i64", sf64)):
                if v != ZDE:
                    fails.append((f"ii:zero-divisor:{name}", {"kind": "ii", "a": a, "b": b, "entry": name, "observed": v, "expected": ZDE}))
            return
        excluded = a == MIN and b == -1
        q, r = a // b, a % b
        classes.add(("ii", sgn(a), sgn(b), band_i(a), band_i(b), r == 0, excluded))
        if not (a == q * b + r and (r == 0 or (r < 0) == (b < 0)) and abs(r) < abs(b)):
            raise common.MachineryError("CPython violates the defining invariants?!")
        for name, v in (("core.py_mod_i64_impl", cm), ("py_mod", sm), ("py_mod_i64", sm64)):
            if v != str(r):
                fails.append((f"ii:mod:{name}", {"kind": "ii", "a": a, "b": b, "entry": name, "observed": v, "expected": str(r)}))
        if not excluded:
            for name, v in (("core.py_floor_div_i64_impl", cf), ("py_floor_div", sf), ("py_floor_div_i64", sf64)):
                if v != str(q):
                    fails.append((f"ii:floordiv:{name}", {"kind": "ii", "a": a, "b": b, "entry": name, "observed": v, "expected": str(q)}))
        else:
            counters["excluded_min_div_minus1"] += 1
        ed = f2x(float(a) / float(b))
        if sd != ed:
            fails.append(("ii:div:py_div", {"kind": "ii", "a": a, "b": b, "entry": "py_div", "observed": sd, "expected": ed}))
        return
    if kind in ("if", "fi"):
        if kind == "if":
            a, b = int(p[1]), x2f(p[2])
            fa, fb = float(a), b
        else:
            a, b = x2f(p[1]), int(p[2])
            fa, fb = a, float(b)
        sm, sf, sd = p[3:6]
        counters["evals"] += 3
        ja, jb = (a, p[2]) if kind == "if" else (p[1], b)
        if fb == 0.0:
            classes.add((kind, "zero-div", band_f(fb) if kind == "if" else "0"))
            for name, v in (("py_mod", sm), ("py_floor_div", sf), ("py_div", sd)):
                if v != ZDE:
                    fails.append((f"{kind}:zero-divisor:{name}", {"kind": kind, "a": ja, "b": jb, "entry": name, "observed": v, "expected": ZDE}))
            return
        r, inside = py_fmod_expected(fa, fb)
        classes.add((kind, sgn(fa), sgn(fb), band_f(fa), band_f(fb), r == 0.0))
        if inside:
            if not feq_mod(sm, r):
                fails.append((f"{kind}:mod:py_mod", {"kind": kind, "a": ja, "b": jb, "entry": "py_mod", "observed": sm, "expected": f2x(r)}))
        else:
            counters["excluded_float_mod_inexact"] += 1
        efd = f2x(floor_quot(fa, fb))
        if sf != efd:
            fails.append((f"{kind}:floordiv:py_floor_div", {"kind": kind, "a": ja, "b": jb, "entry": "py_floor_div", "observed": sf, "expected": efd}))
        ed = f2x(fa / fb)
        if sd != ed:
            fails.append((f"{kind}:div:py_div", {"kind": kind, "a": ja, "b": jb, "entry": "py_div", "observed": sd, "expected": ed}))
        return
    if kind == "ff":
        a, b = x2f(p[1]), x2f(p[2])
        cm, sm, sf, sd, sm64, sf64 = p[3:9]
        counters["evals"] += 6 if b != 0.0 else 5
        if b == 0.0:
            classes.add(("ff", "zero-div", band_f(b), sgn(a)))
            for name, v in (("py_mod", sm), ("py_floor_div", sf), ("py_div", sd), ("py_mod_f64", sm64), ("py_floor_div_f64", sf64)):
                if v != ZDE:
                    fails.append((f"ff:zero-divisor:{name}", {"kind": "ff", "a": p[1], "b": p[2], "entry": name, "observed": v, "expected": ZDE}))
            return
        r, inside = py_fmod_expected(a, b)
        classes.add(("ff", sgn(a), sgn(b), band_f(a), band_f(b), r == 0.0))
        if inside:
            for name, v in (("core.py_mod_f64_impl", cm), ("py_mod", sm), ("py_mod_f64", sm64)):
                if not feq_mod(v, r):
                    fails.append((f"ff:mod:{name}", {"kind": "ff", "a": p[1], "b": p[2], "entry": name, "observed": v, "expected": f2x(r)}))
        else:
            counters["excluded_float_mod_inexact"] += 1
            # the two copies must still agree with each other
            if not (cm == sm == sm64):
                fails.append(("ff:mod:core-vs-runtime", {"kind": "ff", "a": p[1], "b": p[2], "entry": "core vs runtime", "observed": [cm, sm, sm64], "expected": "identical"}))
        efd = f2x(floor_quot(a, b))
        for name, v in (("py_floor_div", sf), ("py_floor_div_f64", sf64)):
            if v != efd:
                fails.append((f"ff:floordiv:{name}", {"kind": "ff", "a": p[1], "b": p[2], "entry": name, "observed": v, "expected": efd}))
        ed = f2x(a / b)
        if sd != ed:
            fails.append(("ff:div:py_div", {"kind": "ff", "a": p[1], "b": p[2], "entry": "py_div", "observed": sd, "expected": ed}))
        return
    raise common.MachineryError(f"unparsable harness line: {line!r}")


def _shard(args):
    tier, i, n = args
    proc = subprocess.Popen([common.IVH, "num", "--tier", tier, "--shard", f"{i}/{n}"], stdout=subprocess.PIPE, text=True, encoding="utf-8")
    fails, classes = [], set()
    counters = {"evals": 0, "lines": 0, "excluded_min_div_minus1": 0, "excluded_float_mod_inexact": 0, "declared": None, "lattice": None}
    samples = []
    for line in proc.stdout:
        if line.startswith("#"):
            if line.startswith("#count"):
                counters["declared"] = int(line.split("\t")[1])
            elif line.startswith("#lattice"):
                counters["lattice"] = line.strip()
            continue
        counters["lines"] += 1
        if counters["lines"] in (1, 5000, 60000):
            samples.append(line.strip())
        check_line(line, fails, classes, counters)
    rc = proc.wait()
    if rc != 0 or counters["declared"] != counters["lines"]:
        raise common.MachineryError(f"ivh num shard {i} exited {rc}, declared={counters['declared']} lines={counters['lines']}")
    return fails[:200], len(fails), classes, counters, samples


def run(tier):
    common.build()
    out = common.Outcome("C04", tier)
    n = common.NCPU
    with Pool(n) as pool:
        res = pool.map(_shard, [(tier, i, n) for i in range(n)])
    classes = set()
    evals = lines = ex1 = ex2 = nfail = 0
    samples = []
    lattice = None
    for fails, nf, cl, c, s in res:
        classes |= cl
        evals += c["evals"]
        lines += c["lines"]
        ex1 += c["excluded_min_div_minus1"]
        ex2 += c["excluded_float_mod_inexact"]
        nfail += nf
        lattice = c["lattice"]
        samples += s[:1]
        for key, case in fails:
            out.fail(key, case)
    # language-level binding (programs through the real compiler) is added by pipe when available
    extra = {}
    try:
        from . import c04_lang

        extra = c04_lang.run(out, tier)
    except ImportError:
        pass
    cov = {
        "evaluations": evals,
        "distinct_nontrivial": len(classes),
        "rule": "every operand pair of the boundary lattice (ints: MIN..MIN+2, ±(2^e±1) for e in 31,32,53,62, MAX-2..MAX, [-64,64]; thorough adds [-1024,1024]^2; "
        "floats: k/8 for |k|<=80, ±2^e, non-dyadic and extreme values, ±0.0) x every entry point (semantic core + runtime library, generic at (i64|f64)^2 and suffixed); "
        "evaluations = entry-point calls observed; a case is non-trivial/distinct by its class (operand kinds, signs, magnitude bands, zero remainder, zero divisor)",
        "samples": samples[:3],
        "exhaustive": True,
        "operand_tuples": lines,
        "lattice": lattice,
        "excluded_min_floordiv_minus1": ex1,
        "excluded_float_mod_inexact_pairs": ex2,
        "failing_entry_point_results": nfail,
    }
    cov.update(extra)
    return out.finish(
        cov,
        assumptions=[
            "CPython's int //, % and float %, / and math.floor are the reference",
                        "float % pairs whose exact result is not representable (CPython itself returns |r| >= |b|) are outside the alphabet; NaN/Inf operands excluded (documented IEEE divergence)",
            "i64::MIN // -1 excluded as the property states",
        ],
    )


def replay(path):
    import json

    common.build()
    rec = json.load(open(path, encoding="utf-8"))
    c = rec["case"]
    a, b = str(c["a"]), str(c["b"])
    line = subprocess.run([common.IVH, "num-one", c["kind"], a, b], capture_output=True, text=True).stdout
    fails, classes, counters = [], set(), {"evals": 0, "excluded_min_div_minus1": 0, "excluded_float_mod_inexact": 0}
    check_line(line, fails, classes, counters)
    print("observed:", line.strip())
    for k, cs in fails:
        print("FAIL", k, cs)
    return 1 if fails else 0
