//! `types` op: what the real type checker decided about every expression and every const (C06 / C07 static halves).
use crate::util::catch;
use incan::frontend::typechecker::{ConstValue, TypeChecker};
use incan::frontend::{lexer, parser};
use serde_json::{Value, json};

pub fn types_observe(src: &str) -> Value {
    let toks = match lexer::lex(src) {
        Ok(t) => t,
        Err(e) => return json!({"parses": false, "why": e.first().map(|x| x.message.clone())}),
    };
    let ast = match parser::parse(&toks) {
        Ok(a) => a,
        Err(e) => return json!({"parses": false, "why": e.first().map(|x| x.message.clone())}),
    };
    let r = catch(|| {
        let mut tc = TypeChecker::new();
        let res = tc.check_with_imports(&ast, &[]);
        (res, tc.type_info().clone())
    });
    match r {
        Err(m) => json!({"parses": true, "panic": m}),
        Ok((res, info)) => {
            let mut exprs: Vec<Value> = info
                .expr_types
                .iter()
                .map(|((s, e), t)| json!([s, e, t.to_string()]))
                .collect();
            exprs.sort_by_key(|v| (v[0].as_u64(), v[1].as_u64()));
            let mut consts = serde_json::Map::new();
            for (k, v) in &info.const_values {
                let jv = match v {
                    ConstValue::Int(i) => json!({"int": i.to_string()}),
                    ConstValue::Float(f) => json!({"float": format!("{:016x}", f.to_bits())}),
                    ConstValue::Bool(b) => json!({"bool": b}),
                    ConstValue::FrozenStr(s) => json!({"str": s}),
                    ConstValue::FrozenBytes(b) => json!({"bytes": b}),
                };
                consts.insert(k.clone(), jv);
            }
            let mut kinds = serde_json::Map::new();
            for (k, v) in &info.const_kinds {
                kinds.insert(k.clone(), json!(format!("{v:?}")));
            }
            let errs: Vec<Value> = match &res {
                Ok(()) => vec![],
                Err(es) => es.iter().map(|e| json!([e.message, e.span.start, e.span.end])).collect(),
            };
            json!({"parses": true, "ok": res.is_ok(), "errs": errs, "exprs": exprs, "consts": consts, "const_kinds": kinds})
        }
    }
}
