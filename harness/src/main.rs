//! ivh – in-process verification harness linked against /repo's crates.
//!
//! Every subcommand enumerates a bounded space completely and evaluates the *real* code on each case. Oracles that need
//! CPython live on the Python side (pspace/); oracles that are naive counting live next to the enumeration.
mod frontend;
mod kernels;
mod layout;
mod lspx;
mod positions;
mod totality;
mod typing;
mod util;

fn main() {
    let args: Vec<String> = std::env::args().skip(1).collect();
    if args.is_empty() {
        eprintln!("usage: ivh <subcommand> ...");
        std::process::exit(2);
    }
    let rest = &args[1..];
    match args[0].as_str() {
        "num" => kernels::run_num(rest),
        "num-one" => kernels::run_num_one(rest),
        "seq" => kernels::run_seq(rest),
        "seq-one" => kernels::run_seq_one(rest),
        "pos" => positions::run_pos(rest),
        "pos-one" => positions::run_pos_one(rest),
        "serve" => frontend::run_serve(rest),
        "total" => totality::run_total(rest),
        "layout" => layout::run_layout(rest),
        "lspx" => lspx::run_lspx(rest),
        "lspx-one" => lspx::run_lspx_one(rest),
        "resolve" => lspx::run_resolve(rest),
        "lsprange" => lspx::run_lsprange(rest),
        "hashorder" => {
            // witness for C12: the iteration order of std HashMaps created in this process (depends on the hash seed)
            let mut m2: std::collections::HashMap<String, u8> = std::collections::HashMap::new();
            for k in ["serde_json", "regex"] {
                m2.insert(k.to_string(), 0);
            }
            let mut m3: std::collections::HashMap<String, u8> = std::collections::HashMap::new();
            for k in ["serde_json", "regex", "chrono"] {
                m3.insert(k.to_string(), 0);
            }
            let o2: Vec<&String> = m2.keys().collect();
            let o3: Vec<&String> = m3.keys().collect();
            println!("{o2:?} {o3:?}");
        }
        other => {
            eprintln!("unknown subcommand {other}");
            std::process::exit(2);
        }
    }
}
