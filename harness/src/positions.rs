//! C19: exhaustive check of offset <-> position conversions, span -> range, and line/column reporting over all short
//! documents on the alphabet {a, é, 𝄞, \n, \r, ' '}.
//!
//! The reference is deliberately naive: count '\n' and chars in the prefix.
use crate::util::{arg, arg_usize, catch, jstr};
use incan::frontend::diagnostics::{CompileError, format_error};
use incan::lsp::diagnostics::{compile_error_to_diagnostic, offset_to_position, position_to_offset, span_to_range};
use incan_syntax::ast::Span;
use std::collections::BTreeMap;
use std::sync::Mutex;
use tower_lsp::lsp_types::{Position, Url};

const ALPHA: [char; 6] = ['a', 'é', '𝄞', '\n', '\r', ' '];

/// Reference: (line, character) of a char-boundary byte offset, by counting.
fn ref_pos(doc: &str, o: usize) -> (u32, u32) {
    let pre = &doc[..o];
    let line = pre.matches('\n').count() as u32;
    let col = match pre.rfind('\n') {
        Some(i) => pre[i + 1..].chars().count(),
        None => pre.chars().count(),
    } as u32;
    (line, col)
}

#[derive(Default)]
pub struct Stats {
    pub docs: u64,
    pub evals: u64,
    pub classes: BTreeMap<String, u64>,
    pub violations: Vec<String>,
    pub known_col_bytes: u64,
    pub known_col_witness: Option<String>,
}

fn doc_class(doc: &str) -> String {
    let mut c = String::new();
    if doc.contains('é') {
        c.push('2');
    }
    if doc.contains('𝄞') {
        c.push('4');
    }
    if doc.contains("\r\n") {
        c.push('C');
    } else if doc.contains('\r') {
        c.push('r');
    }
    if doc.contains("\n\n") || doc.starts_with('\n') {
        c.push('E');
    }
    if doc.ends_with('\n') {
        c.push('N');
    } else if !doc.is_empty() {
        c.push('n');
    }
    format!("len{}:{}:lines{}", doc.chars().count(), c, doc.matches('\n').count() + 1)
}

fn parse_line_col(rendered: &str) -> Option<(usize, usize)> {
    // "  \x1b[36m-->\x1b[0m f:LINE:COL\n"
    let l = rendered.lines().nth(1)?;
    let mut it = l.rsplitn(3, ':');
    let col = it.next()?.trim().parse().ok()?;
    let line = it.next()?.trim().parse().ok()?;
    Some((line, col))
}

pub fn check_doc(doc: &str, st: &mut Stats, uri: &Url) {
    st.docs += 1;
    *st.classes.entry(doc_class(doc)).or_insert(0) += 1;
    let len = doc.len();
    let dj = jstr(doc);
    let viol = |st: &mut Stats, kind: &str, detail: String| {
        if st.violations.len() < 200 {
            st.violations.push(format!("{{\"kind\":{},\"doc\":{},\"detail\":{}}}", jstr(kind), dj, jstr(&detail)));
        }
    };
    // valid positions: map boundary offset -> ref position
    let bounds: Vec<usize> = (0..=len).filter(|&o| doc.is_char_boundary(o)).collect();
    let refs: Vec<(u32, u32)> = bounds.iter().map(|&o| ref_pos(doc, o)).collect();
    let valid = |p: Position| refs.iter().any(|&(l, c)| l == p.line && c == p.character);
    let n_lines = doc.matches('\n').count() as u32 + 1;
    let max_col = refs.iter().map(|r| r.1).max().unwrap_or(0);

    // 1/2: boundary offsets: agree with counting, round trip, strictly monotone
    let mut prev: Option<(u32, u32)> = None;
    for (k, &o) in bounds.iter().enumerate() {
        st.evals += 1;
        let p = match catch(|| offset_to_position(doc, o)) {
            Ok(p) => p,
            Err(m) => {
                viol(st, "offset_to_position panicked", format!("offset={o} msg={m}"));
                continue;
            }
        };
        if (p.line, p.character) != refs[k] {
            viol(
                st,
                "offset_to_position != counting",
                format!("offset={o} got=({},{}) ref=({},{})", p.line, p.character, refs[k].0, refs[k].1),
            );
        }
        match catch(|| position_to_offset(doc, p)) {
            Ok(Some(b)) if b == o => {}
            other => viol(st, "round trip offset->position->offset", format!("offset={o} back={other:?}")),
        }
        if let Some(pp) = prev {
            if !(pp < (p.line, p.character)) {
                viol(st, "positions not strictly monotone", format!("offset={o} prev={pp:?} cur=({},{})", p.line, p.character));
            }
        }
        prev = Some((p.line, p.character));
    }
    // 3: every offset incl. non-boundary and past the end maps to an in-document position, monotone non-decreasing
    let mut prev: Option<(u32, u32)> = None;
    for o in 0..=len + 2 {
        st.evals += 1;
        match catch(|| offset_to_position(doc, o)) {
            Ok(p) => {
                if !valid(p) {
                    viol(st, "offset_to_position outside document", format!("offset={o} got=({},{})", p.line, p.character));
                }
                if let Some(pp) = prev {
                    if pp > (p.line, p.character) {
                        viol(st, "positions decrease", format!("offset={o}"));
                    }
                }
                prev = Some((p.line, p.character));
            }
            Err(m) => viol(st, "offset_to_position panicked", format!("offset={o} msg={m}")),
        }
    }
    // 4: every position in the bounding box
    for line in 0..=n_lines {
        for ch in 0..=max_col + 1 {
            st.evals += 1;
            let p = Position::new(line, ch);
            let r = match catch(|| position_to_offset(doc, p)) {
                Ok(r) => r,
                Err(m) => {
                    viol(st, "position_to_offset panicked", format!("pos=({line},{ch}) msg={m}"));
                    continue;
                }
            };
            let exact = refs.iter().position(|&(l, c)| l == line && c == ch).map(|k| bounds[k]);
            match (exact, r) {
                (Some(o), Some(b)) if o == b => {}
                (Some(o), got) => viol(st, "position_to_offset wrong for valid position", format!("pos=({line},{ch}) want={o} got={got:?}")),
                (None, None) => {}
                (None, Some(b)) => {
                    // clamped: must be a boundary in the document; if the line exists it must be the end of that line,
                    // if the line does not exist it must be the end of the document.
                    let ok = if line < n_lines {
                        let eol = refs
                            .iter()
                            .enumerate()
                            .filter(|(_, r)| r.0 == line)
                            .map(|(k, _)| bounds[k])
                            .max()
                            .unwrap_or(len);
                        b == eol
                    } else {
                        b == len
                    };
                    if !ok {
                        viol(st, "position beyond end mapped to a wrong in-document offset", format!("pos=({line},{ch}) got={b}"));
                    }
                }
            }
        }
    }
    // 5: every span incl. empty, reversed, past the end
    for s in 0..=len + 2 {
        for e in 0..=len + 2 {
            st.evals += 1;
            match catch(|| span_to_range(doc, s, e)) {
                Ok(r) => {
                    if !valid(r.start) || !valid(r.end) {
                        viol(st, "span_to_range outside document", format!("span=({s},{e}) range={r:?}"));
                    }
                    if (r.start.line, r.start.character) > (r.end.line, r.end.character) {
                        viol(st, "span_to_range start > end", format!("span=({s},{e}) range={r:?}"));
                    }
                }
                Err(m) => viol(st, "span_to_range panicked", format!("span=({s},{e}) msg={m}")),
            }
            let err = CompileError::type_error("m".to_string(), Span::new(s, e)).with_hint("h").with_note("n");
            match catch(|| compile_error_to_diagnostic(&err, doc, uri)) {
                Ok(d) => {
                    if !valid(d.range.start) || !valid(d.range.end) || d.range.start > d.range.end {
                        viol(st, "diagnostic range malformed", format!("span=({s},{e}) range={:?}", d.range));
                    }
                }
                Err(m) => viol(st, "compile_error_to_diagnostic panicked", format!("span=({s},{e}) msg={m}")),
            }
            match catch(|| format_error("f", doc, &err)) {
                Ok(text) => {
                    if s <= len && doc.is_char_boundary(s) {
                        let (rl, rc) = ref_pos(doc, s);
                        match parse_line_col(&text) {
                            Some((l, c)) => {
                                if l != rl as usize + 1 {
                                    viol(st, "terminal line != counting", format!("span=({s},{e}) got={l} ref={}", rl + 1));
                                }
                                if c != rc as usize + 1 {
                                    // byte-vs-char column (known defect class): column equals bytes-since-line-start + 1
                                    let line_start = doc[..s].rfind('\n').map(|i| i + 1).unwrap_or(0);
                                    if c == s - line_start + 1 {
                                        st.known_col_bytes += 1;
                                        if st.known_col_witness.is_none() {
                                            st.known_col_witness = Some(format!("doc={dj} offset={s} got_col={c} char_col={}", rc + 1));
                                        }
                                    } else {
                                        viol(st, "terminal column != counting", format!("span=({s},{e}) got={c} ref={}", rc + 1));
                                    }
                                }
                            }
                            None => viol(st, "format_error location line unparsable", format!("span=({s},{e})")),
                        }
                    }
                }
                Err(m) => viol(st, "format_error panicked", format!("span=({s},{e}) msg={m}")),
            }
        }
    }
}

fn nth_doc(mut k: u64, len: usize) -> String {
    let mut s = String::new();
    for _ in 0..len {
        s.push(ALPHA[(k % 6) as usize]);
        k /= 6;
    }
    s
}

/// `ivh pos --maxlen N [--threads T]` → JSON summary on stdout.
pub fn run_pos(args: &[String]) {
    let maxlen = arg_usize(args, "--maxlen", 5);
    let threads = arg_usize(args, "--threads", 16);
    let total = Mutex::new(Stats::default());
    std::thread::scope(|sc| {
        for t in 0..threads {
            let total = &total;
            sc.spawn(move || {
                let uri = Url::parse("file:///d.incn").expect("url");
                let mut st = Stats::default();
                let mut idx: u64 = 0;
                for len in 0..=maxlen {
                    let n = 6u64.pow(len as u32);
                    for k in 0..n {
                        idx += 1;
                        if (idx % threads as u64) as usize != t {
                            continue;
                        }
                        let d = nth_doc(k, len);
                        check_doc(&d, &mut st, &uri);
                    }
                }
                let mut g = total.lock().expect("lock");
                g.docs += st.docs;
                g.evals += st.evals;
                g.known_col_bytes += st.known_col_bytes;
                if g.known_col_witness.is_none() || st.known_col_witness.as_ref().map(|w| w.len()) < g.known_col_witness.as_ref().map(|w| w.len()) {
                    if st.known_col_witness.is_some() {
                        g.known_col_witness = st.known_col_witness.clone();
                    }
                }
                for (k, v) in st.classes {
                    *g.classes.entry(k).or_insert(0) += v;
                }
                g.violations.extend(st.violations);
            });
        }
    });
    let g = total.lock().expect("lock");
    print_stats(&g, maxlen);
}

fn print_stats(g: &Stats, maxlen: usize) {
    println!(
        "{{\"maxlen\":{},\"docs\":{},\"evaluations\":{},\"classes\":{},\"known_col_bytes\":{},\"known_col_witness\":{},\"violations\":[{}]}}",
        maxlen,
        g.docs,
        g.evals,
        g.classes.len(),
        g.known_col_bytes,
        g.known_col_witness.as_ref().map(|w| jstr(w)).unwrap_or("null".to_string()),
        g.violations.iter().take(50).cloned().collect::<Vec<_>>().join(",")
    );
}

/// `ivh pos-one --doc <json string>` – replay a single document.
pub fn run_pos_one(args: &[String]) {
    let dj = arg(args, "--doc").expect("--doc");
    let doc: String = serde_json::from_str(&dj).expect("json string");
    let uri = Url::parse("file:///d.incn").expect("url");
    let mut st = Stats::default();
    check_doc(&doc, &mut st, &uri);
    print_stats(&st, doc.chars().count());
}
