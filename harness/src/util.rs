//! Shared helpers: panic capture, sharding, tiny argument parsing.
use std::panic::{self, AssertUnwindSafe};
use std::sync::Once;

static HOOK: Once = Once::new();

/// Install a silent panic hook (once). All subjects are run under `catch_unwind`; the payload is the observation.
pub fn quiet_panics() {
    HOOK.call_once(|| {
        panic::set_hook(Box::new(|_| {}));
    });
}

/// Run `f`, returning `Ok(value)` or `Err(panic message)`.
pub fn catch<T>(f: impl FnOnce() -> T) -> Result<T, String> {
    quiet_panics();
    match panic::catch_unwind(AssertUnwindSafe(f)) {
        Ok(v) => Ok(v),
        Err(p) => {
            if let Some(s) = p.downcast_ref::<String>() {
                Err(s.clone())
            } else if let Some(s) = p.downcast_ref::<&'static str>() {
                Err((*s).to_string())
            } else {
                Err("<non-string panic payload>".to_string())
            }
        }
    }
}

/// `--key value` lookup in argv.
pub fn arg(args: &[String], key: &str) -> Option<String> {
    args.iter().position(|a| a == key).and_then(|i| args.get(i + 1).cloned())
}

pub fn arg_usize(args: &[String], key: &str, default: usize) -> usize {
    arg(args, key).and_then(|v| v.parse().ok()).unwrap_or(default)
}

/// Shard spec `i/n`: case number k belongs to this shard iff k % n == i.
#[derive(Clone, Copy)]
pub struct Shard {
    pub i: usize,
    pub n: usize,
}

impl Shard {
    pub fn from_args(args: &[String]) -> Shard {
        match arg(args, "--shard") {
            Some(s) => {
                let (a, b) = s.split_once('/').expect("--shard i/n");
                Shard {
                    i: a.parse().expect("shard i"),
                    n: b.parse().expect("shard n"),
                }
            }
            None => Shard { i: 0, n: 1 },
        }
    }
    #[inline]
    pub fn mine(&self, k: u64) -> bool {
        (k % self.n as u64) as usize == self.i
    }
}

/// JSON-escape a string (for hand-written JSON lines).
pub fn jstr(s: &str) -> String {
    serde_json::to_string(s).unwrap_or_else(|_| "\"?\"".to_string())
}

// ---------------------------------------------------------------------------------------------------------------
// Watchdog: "no progress for N seconds" is reported (on stderr, with the tuple in flight) and the process exits 3.
// ---------------------------------------------------------------------------------------------------------------
use std::sync::Mutex;
use std::sync::atomic::{AtomicU64, Ordering};

static PROGRESS: AtomicU64 = AtomicU64::new(0);
static CURRENT: Mutex<String> = Mutex::new(String::new());

/// Announce the case about to be evaluated.
pub fn in_flight(desc: impl FnOnce() -> String) {
    PROGRESS.fetch_add(1, Ordering::Relaxed);
    if let Ok(mut g) = CURRENT.lock() {
        *g = desc();
    }
}

pub fn start_watchdog(secs: u64) {
    std::thread::spawn(move || {
        let mut last = PROGRESS.load(Ordering::Relaxed);
        loop {
            std::thread::sleep(std::time::Duration::from_secs(secs));
            let now = PROGRESS.load(Ordering::Relaxed);
            if now == last && now != 0 {
                let cur = CURRENT.lock().map(|g| g.clone()).unwrap_or_default();
                eprintln!("HANG\t{cur}");
                std::process::exit(3);
            }
            last = now;
        }
    });
}
