"""C17 – a validated newtype can never hold an invalid value.

newtype declaration (underlying type x hook kind) x construction site x argument class. For a newtype with a selected
validation hook, constructing it with a rejected argument anywhere outside the type's own methods must stop the program
with the hook's error before anything after the construction is printed; accepted arguments behave as plain
construction. Distinct newtypes over the same underlying type must not be interchangeable (checker verdicts).
"""
import json
import re

from . import common, pipe, serve

# underlying type -> (accepted literal, rejected literal, boundary accepted literal, validity predicate text, shown via)
UNDER = {
    "int": dict(ok="5", bad="-3", edge="1", cond="n <= 0", show="{V}.0", ty="int"),
    "str": dict(ok='"abc"', bad='""', edge='"a"', cond='len(n) == 0', show="{V}.0", ty="str"),
    "float": dict(ok="2.5", bad="-0.5", edge="0.25", cond="n <= 0.0", show="{V}.0", ty="float"),
}
MSG = "value rejected by hook"


def decl(under, hook):
    u = UNDER[under]
    t = u["ty"]
    body = f'        if {u["cond"]}:\n            return Err("{MSG}")\n        return Ok(Pos(n))\n'
    if hook == "none":
        return f"type Pos = newtype {t}\n", False
    if hook == "from_underlying":
        return f"type Pos = newtype {t}:\n    def from_underlying(n: {t}) -> Result[Pos, str]:\n{body}", True
    if hook == "single_from":
        return f"type Pos = newtype {t}:\n    def from_{t}(n: {t}) -> Result[Pos, str]:\n{body}", True
    if hook == "hook_plus_method":
        return f"type Pos = newtype {t}:\n    def from_underlying(n: {t}) -> Result[Pos, str]:\n{body}\n    def inner(self) -> {t}:\n        return self.0\n", True
    if hook == "two_from":  # ambiguous: no hook is selected, construction stays raw
        return f"type Pos = newtype {t}:\n    def from_a(n: {t}) -> Result[Pos, str]:\n{body}\n    def from_b(n: {t}) -> Result[Pos, str]:\n{body}", False
    # siblings that do not have the hook's shape must not disturb the selection of the single well-shaped from_*
    other = "str" if t != "str" else "int"
    ok_body = "        return Ok(Pos(a))\n"
    sib = {
        "single_from+two_param_from": f"    def from_pair(a: {t}, b: {t}) -> Result[Pos, str]:\n{ok_body}",
        "single_from+other_type_from": f"    def from_other(s: {other}) -> Result[Pos, str]:\n        return Err(\"unused\")\n",
        "single_from+plain_return_from": f"    def from_raw(a: {t}) -> Pos:\n        return Pos(a)\n",
        "single_from+instance_from": f"    def from_me(self, a: {t}) -> Result[Pos, str]:\n{ok_body}",
        "single_from+static_non_from": f"    def make(a: {t}) -> Result[Pos, str]:\n{ok_body}",
        "single_from+no_param_from": "    def from_nothing() -> Result[Pos, str]:\n        return Err(\"unused\")\n",
    }
    if hook in sib:
        return f"type Pos = newtype {t}:\n    def from_{t}(n: {t}) -> Result[Pos, str]:\n{body}\n{sib[hook]}", True
    if hook == "from_underlying+single_from":  # from_underlying is preferred over any other well-shaped from_*
        return f"type Pos = newtype {t}:\n    def from_{t}(a: {t}) -> Result[Pos, str]:\n{ok_body}\n    def from_underlying(n: {t}) -> Result[Pos, str]:\n{body}", True
    raise ValueError(hook)


# construction sites: (extra declarations, statements in main using {X} for the argument; must bind or use the value and
# print its payload as the line right after "before")
SITES = {
    "let": ("", "p = Pos({X})\nprintln({SHOWP})"),
    "annotated_let": ("", "p: Pos = Pos({X})\nprintln({SHOWP})"),
    "mut_let": ("", "mut p = Pos({X})\nprintln({SHOWP})"),
    "argument": ("def take(p: Pos) -> {T}:\n    return {SHOWP}\n", "println(take(Pos({X})))"),
    "return": ("def make(x: {T}) -> Pos:\n    return Pos(x)\n", "p = make({X})\nprintln({SHOWP})"),
    "model_field": ("model Holder:\n    p: Pos\n", "h = Holder(p=Pos({X}))\nprintln({SHOWHP})"),
    "list_element": ("", "ps = [Pos({X})]\np = ps[0]\nprintln({SHOWP})"),
    "nested_call": ("def ident(p: Pos) -> Pos:\n    return p\n", "p = ident(ident(Pos({X})))\nprintln({SHOWP})"),
    "other_type_method": ("class Factory:\n    k: int\n\n    def build(self, x: {T}) -> Pos:\n        return Pos(x)\n", "f = Factory(k=1)\np = f.build({X})\nprintln({SHOWP})"),
    "trait_impl_method": (
        "trait Maker:\n    def mk(self, x: {T}) -> Pos: ...\n\n\nclass Impl with Maker:\n    k: int\n\n    def mk(self, x: {T}) -> Pos:\n        return Pos(x)\n",
        "m = Impl(k=1)\np = m.mk({X})\nprintln({SHOWP})",
    ),
    "trait_default_method": (
        "trait DMaker:\n    def dmk(self, x: {T}) -> Pos:\n        return Pos(x)\n\n\nclass DImpl with DMaker:\n    k: int\n",
        "m = DImpl(k=1)\np = m.dmk({X})\nprintln({SHOWP})",
    ),
    "if_block": ("", "if True:\n    p = Pos({X})\n    println({SHOWP})"),
    "for_block": ("", "for it in range(1):\n    p = Pos({X})\n    println({SHOWP})"),
    "match_arm": ("", "match 0:\n    case 0:\n        p = Pos({X})\n        println({SHOWP})\n    case _:\n        pass"),
    "closure_body": ("", "mk = (x) => Pos(x)\np = mk({X})\nprintln({SHOWP})"),
    "comprehension": ("", "ps = [Pos(x) for x in [{X}]]\np = ps[0]\nprintln({SHOWP})"),
    "some": ("", "o = Some(Pos({X}))\nmatch o:\n    case Some(p):\n        println({SHOWP})\n    case None:\n        pass"),
    "helper_fn": ("def helper(x: {T}) -> {T}:\n    p = Pos(x)\n    return {SHOWP}\n", "println(helper({X}))"),
    "second_construction": ("", "q = Pos({OK})\np = Pos({X})\nprintln({SHOWP})"),
    # the argument is not a literal: a variable, an arithmetic expression, a call result, the payload of *another* newtype
    # over the same underlying type (no hook of its own), a field of a model
    "arg_variable": ("", "raw = {X}\np = Pos(raw)\nprintln({SHOWP})"),
    "arg_call_result": ("def give(v: {T}) -> {T}:\n    return v\n", "p = Pos(give({X}))\nprintln({SHOWP})"),
    "arg_other_newtype_payload": ("type Other = newtype {T}\n", "o = Other({X})\np = Pos(o.0)\nprintln({SHOWP})"),
    "arg_other_newtype_payload_param": ("type Other = newtype {T}\n\n\ndef conv(o: Other) -> Pos:\n    return Pos(o.0)\n", "p = conv(Other({X}))\nprintln({SHOWP})"),
    "arg_model_field": ("model Carrier:\n    raw: {T}\n", "c = Carrier(raw={X})\np = Pos(c.raw)\nprintln({SHOWP})"),
}
# the exempt site: inside Pos's own methods construction is raw (used by the hook itself); nothing to assert beyond "builds"


DEPMOD_SITES = ["depmod_function_importer_first", "depmod_function_newtype_first", "depmod_method_importer_first", "depmod_method_newtype_first", "depmod_function_only_importer_imported"]


def depmod_program(under, hook, site, arg_kind):
    """The construction happens inside a dependency module (`midmod`) that imports the newtype from another dependency
    module (`ntmod`); the entry file imports the two modules in either order (the order decides the order in which the
    compiler meets the modules)."""
    u = UNDER[under]
    d, validated = decl(under, hook)
    x, t = u[arg_kind], u["ty"]
    showp = u["show"].replace("{V}", "p")
    # the value is unwrapped inside the dependency module: a function of one module returning a type of a module the
    # checker meets later is typed as an unknown type variable there (a false rejection, outside this property)
    if "_function_" in site:
        mid = f"from ntmod import Pos\n\n\npub def make_show(x: {t}) -> {t}:\n    p = Pos(x)\n    return {showp}\n"
        imp_mid, call = "from midmod import make_show", f"v = make_show({x})"
    else:
        mid = f"from ntmod import Pos\n\n\npub class Factory:\n    pub k: int\n\n    def build_show(self, x: {t}) -> {t}:\n        p = Pos(x)\n        return {showp}\n"
        imp_mid, call = "from midmod import Factory", f"f = Factory(k=1)\n    v = f.build_show({x})"
    imp_nt = "from ntmod import Pos"
    if site.endswith("only_importer_imported"):
        imports = imp_mid
    elif site.endswith("importer_first"):
        imports = imp_mid + "\n" + imp_nt
    else:
        imports = imp_nt + "\n" + imp_mid
    main = f'{imports}\n\n\ndef main() -> None:\n    println("before")\n    {call}\n    println(v)\n    println("after")\n'
    return {"ntmod.incn": "pub " + d, "midmod.incn": mid, "prog.incn": main}, validated


def program(under, hook, site, arg_kind, use_first=False):
    if site.startswith("depmod_"):
        return depmod_program(under, hook, site, arg_kind)
    u = UNDER[under]
    d, validated = decl(under, hook)
    imported = site.startswith("imported_")
    extra, stm = SITES[(site[len("imported_alias_"):] if site.startswith("imported_alias_") else site[len("imported_"):]) if imported else site]
    x = u[arg_kind]
    showp = u["show"].replace("{V}", "p")
    showhp = u["show"].replace("{V}", "h.p")
    sub = lambda t: t.replace("{X}", x).replace("{T}", u["ty"]).replace("{SHOWP}", showp).replace("{SHOWHP}", showhp).replace("{OK}", u["ok"])
    body = 'println("before")\n' + sub(stm) + '\nprintln("after")'
    main = (sub(extra) + "\n\n" if extra else "") + "def main() -> None:\n" + "\n".join("    " + l for l in body.split("\n")) + "\n"
    if imported and site.startswith("imported_alias_"):
        # the newtype is imported under another name: constructions through the alias go through the hook as well
        return {"ntmod.incn": "pub " + d, "prog.incn": "from ntmod import Pos as PAlias\n\n\n" + re.sub(r"\bPos\b", "PAlias", main)}, validated
    if imported:
        return {"ntmod.incn": "pub " + d, "prog.incn": "from ntmod import Pos\n\n\n" + main}, validated
    if use_first:
        # the construction site is declared earlier in the file than the newtype (legal: declarations are order-independent)
        return {"prog.incn": main + "\n\n" + d}, validated
    return {"prog.incn": d + "\n\n" + main}, validated


MIX_PRELUDE = "type Aa = newtype int\n\n\ntype Bb = newtype int\n\n\ndef take_a(a: Aa) -> int:\n    return a.0\n\n\nmodel HoldA:\n    a: Aa\n\n\n"
MIX = {
    "annotated_let": ("x: Aa = Bb(1)", "x: Aa = Aa(1)"),
    "return": None,  # built below
    "reassign": ("mut x = Aa(1)\n    x = Bb(2)", "mut x = Aa(1)\n    x = Aa(2)"),
    "argument": ("take_a(Bb(1))", "take_a(Aa(1))"),
    "model_field": ("h = HoldA(a=Bb(1))", "h = HoldA(a=Aa(1))"),
    "list_annotated": ("xs: List[Aa] = [Bb(1)]", "xs: List[Aa] = [Aa(1)]"),
    "underlying_for_newtype": ("x: Aa = 1", "x: Aa = Aa(1)"),
    "newtype_for_underlying": ("x: int = Aa(1)", "x: int = Aa(1).0"),
}


def mix_programs():
    out = []
    for name, pair in MIX.items():
        if pair is None:
            bad = MIX_PRELUDE + "def conv() -> Aa:\n    return Bb(1)\n\n\ndef main() -> None:\n    pass\n"
            good = MIX_PRELUDE + "def conv() -> Aa:\n    return Aa(1)\n\n\ndef main() -> None:\n    pass\n"
        else:
            bad = MIX_PRELUDE + f"def main() -> None:\n    {pair[0]}\n"
            good = MIX_PRELUDE + f"def main() -> None:\n    {pair[1]}\n"
        out.append((name, bad, good))
    return out


def expected_value_line(under, arg_kind):
    v = UNDER[under][arg_kind]
    if under == "str":
        return v.strip('"')
    return v


def run(tier):
    common.build(need_cli=True)
    pipe.warm()
    out = common.Outcome("C17", tier)
    thorough = tier == "thorough"
    hooks = ["none", "from_underlying", "single_from", "hook_plus_method", "two_from"]
    sibling_hooks = ["single_from+two_param_from", "single_from+other_type_from", "single_from+plain_return_from", "single_from+instance_from", "single_from+static_non_from",
                     "single_from+no_param_from", "from_underlying+single_from"]
    hooks += sibling_hooks
    cases = []
    for under in UNDER:
        for hook in hooks:
            for site in list(SITES) + ["imported_let", "imported_argument", "imported_other_type_method", "imported_alias_let", "imported_alias_argument", "imported_alias_model_field"] + DEPMOD_SITES:
                if site.startswith(("imported_", "depmod_")) and (under != "int" or hook not in ("from_underlying", "none")):
                    continue
                if not thorough and under != "int" and site not in ("let", "argument", "model_field", "other_type_method"):
                    continue
                if not thorough and hook in ("hook_plus_method", "two_from", "none") and site not in ("let", "argument", "return", "list_element"):
                    continue
                if hook in sibling_hooks and (site not in (("let", "argument", "return", "other_type_method") if thorough else ("let", "return")) or (under != "int" and not thorough)):
                    continue
                for ak in ("ok", "bad", "edge"):
                    if not thorough and ak == "edge" and site != "let":
                        continue
                    src, validated = program(under, hook, site, ak)
                    cases.append(((f"under:{under}", f"hook:{hook}", f"site:{site}", f"arg:{ak}"), src, validated, under, ak))
    # declaration order: the same sites with the newtype declared *after* its uses
    for site in SITES:
        for hook in ("from_underlying", "single_from"):
            for ak in ("ok", "bad"):
                if not thorough and hook == "single_from" and site not in ("let", "helper_fn", "other_type_method"):
                    continue
                src, validated = program("int", hook, site, ak, use_first=True)
                cases.append((("under:int", f"hook:{hook}", f"site:{site}+declared-after-use", f"arg:{ak}"), src, validated, "int", ak))
    # domain: programs the checker accepts
    single = [i for i, c in enumerate(cases) if len(c[1]) == 1]
    fr = serve.run_requests([{"id": i, "op": "front", "src": cases[i][1]["prog.incn"], "emit": False} for i in single])
    bad_front = {i for i in single if fr[i].get("crashed") or fr[i]["check"]["status"] != "ok"}
    build = [(i, c) for i, c in enumerate(cases) if i not in bad_front]  # multi-file cases are judged by `incan build` itself
    rejected = {"@".join(cases[i][0][:3]) for i in bad_front}
    res = pipe.run_many([(i, c[1]) for i, c in build])
    by_key = {}
    n_ok = 0
    not_built = {}
    sig_ok = set()
    for i, (sig, src, validated, under, ak) in build:
        r = res[i]
        base = {"sig": list(sig), "program": src if isinstance(src, str) else "\n".join(f"# --- {k}\n{v}" for k, v in src.items()), "files": src}
        if r.stage != "run":
            k = f"{sig[1]}@{sig[2]}|{r.stage}:" + re.sub(r"[^A-Za-z0-9_:,]+", "_", (r.detail or ""))[:40]
            not_built[k] = not_built.get(k, 0) + 1
            continue
        lines = r.stdout.strip("\n").split("\n") if r.stdout.strip() else []
        must_reject = validated and ak == "bad"
        if must_reject:
            if r.exit == 0 or "after" in lines:
                by_key.setdefault(f"{sig[1]}@{sig[2]}|invalid-value-constructed", []).append({**base, "stdout": r.stdout, "exit": r.exit})
            elif r.exit != 101 or MSG not in r.stderr:
                by_key.setdefault(f"{sig[1]}@{sig[2]}|stopped-without-the-hook-error", []).append({**base, "stdout": r.stdout, "exit": r.exit, "stderr": r.stderr[-300:]})
            elif lines != ["before"]:
                by_key.setdefault(f"{sig[1]}@{sig[2]}|printed-after-invalid-construction", []).append({**base, "stdout": r.stdout})
            else:
                n_ok += 1
                sig_ok.add(sig)
        else:
            want = ["before", expected_value_line(under, ak), "after"]
            same = r.exit == 0 and len(lines) == 3 and lines[0] == "before" and lines[2] == "after" and (lines[1] == want[1] or _num_eq(lines[1], want[1]))
            if not same:
                by_key.setdefault(f"{sig[1]}@{sig[2]}|valid-construction-misbehaves", []).append({**base, "stdout": r.stdout, "exit": r.exit, "stderr": r.stderr[-300:], "expected": want})
            else:
                n_ok += 1
                sig_ok.add(sig)
    # mixing distinct newtypes: checker verdicts
    mixes = mix_programs()
    reqs = []
    for j, (name, bad, good) in enumerate(mixes):
        reqs.append({"id": f"b{j}", "op": "front", "src": bad, "emit": False})
        reqs.append({"id": f"g{j}", "op": "front", "src": good, "emit": False})
    mr = serve.run_requests(reqs)
    for j, (name, bad, good) in enumerate(mixes):
        g_ok = mr[f"g{j}"]["check"]["status"] == "ok"
        b_ok = mr[f"b{j}"]["check"]["status"] == "ok"
        if not g_ok:
            continue  # twin rejected: the position is not usable on this tree
        if b_ok:
            by_key.setdefault(f"mix:{name}|distinct-newtypes-interchangeable", []).append({"sig": ["mix", name], "program": bad})
        else:
            sig_ok.add(("mix", name))
            n_ok += 1
    for key, cs in by_key.items():
        for c in cs[:2]:
            out.fail(key, c)
        if key in out.known_seen:
            out.known_seen[key][0] = len(cs)
    cov = {
        "evaluations": len(cases) + 2 * len(mixes),
        "distinct_nontrivial": len(sig_ok),
        "rule": "underlying type (int, str, float) x hook kind (none, from_underlying, single from_<type>, hook + other method, two from_* = no hook selected, and the single from_<type> next to each kind of sibling that does not have the hook's shape: two-parameter from_*, from_* over another type, from_* returning the bare type, instance from_*, static non-from method, parameterless from_*; from_underlying next to another well-shaped from_*) x 19 construction sites (each also with the newtype declared after its uses) "
        "sites + 6 sites where the newtype is imported from another module (3 of them under an alias) + 5 sites where a dependency module constructs a newtype imported from another dependency module (function / method, entry file importing the two modules in either order or only the constructing one) (let, annotated/mut let, argument, return, model field, list element, nested call, another type's method, trait impl / default method, if / for / match blocks, "
        "closure, comprehension, Some(..), helper function, second construction; argument given as a variable, a call result, the payload of another newtype - local or parameter -, a model field) x argument class (accepted, rejected, boundary); quick restricts the product as stated in the code; "
        "plus 8 mixing positions for two newtypes over int (with accepted twins); non-trivial = distinct signatures that built, ran and satisfied the oracle",
        "samples": [{"sig": list(c[0]), "files": c[1]} for c in common.pick_samples(cases)],
        "exhaustive": True,
        "programs": len(cases),
        "accepted_by_checker": len(build),
        "rejected_by_checker_sites": sorted(rejected)[:30],
        "accepted_but_not_built": not_built,
        "satisfied": n_ok,
        "failing_by_class": {k: len(v) for k, v in by_key.items()},
    }
    pipe.prune_targets()
    return out.finish(
        cov,
        assumptions=[
            "the hook is `from_underlying`, or a single `from_*` of the same shape; with two candidate `from_*` methods no hook is selected (construction stays raw)",
            "programs the checker rejects or that do not build are outside what this check can observe (counted in the evidence; C02 covers accepted-but-not-building)",
        ],
    )


def _num_eq(a, b):
    try:
        return float(a) == float(b)
    except ValueError:
        return False


def replay(path):
    common.build(need_cli=True)
    rec = json.load(open(path, encoding="utf-8"))
    c = rec["case"]
    r = pipe.run_program(0, c.get("files") or {"prog.incn": c["program"]})
    print(c["program"])
    print("stage", r.stage, "exit", r.exit)
    print(r.stdout)
    print(r.stderr[-400:])
    return 1
