"""C02 – every program that type-checks also builds.

The union of the well-typed programs the other checks generate: every unit of the semantic corpus (pspace/sem.py), and
the benign twins of the C03 rule x context space (each a complete well-typed program in one statement / function /
expression context). Each program is first shown to the real checker; accepted programs must survive code generation
(`IrCodegen::try_generate`, in-process) and `incan build` (the real CLI + cargo + rustc).
"""
import json
import os
import re

from . import c01, c03, common, pipe, sem, serve


def outcome_kind(r):
    d = r.detail
    if r.stage == "rustc":
        codes = d.split(":")[0]
        return f"rustc:{codes}"
    if r.stage == "codegen":
        m = re.match(r"(\w+): (?:lowering error: |emission error: )?(.*)", d)
        msg = re.sub(r"'[^']*'", "'_'", m.group(2))[:60] if m else d[:60]
        return f"{m.group(1) if m else 'codegen'}:{msg}".replace(" ", "_")
    return f"{r.stage}:{d[:60]}".replace(" ", "_")


def twin_programs(tier):
    level = 3 if tier == "thorough" else 2
    out = []
    seen = set()
    import zlib

    for sig, bad, good in c03.enumerate_cases(level):
        k = zlib.crc32("@".join(sig).encode())  # position-independent sampling: adding rules does not reshuffle the sample
        if tier != "thorough" and len(sig) > 1 and k % 6 != 0:
            continue
        if tier == "thorough" and len(sig) > 2 and k % 9 != 0:
            continue
        src = good + "\n\ndef main() -> None:\n    pass\n"
        if src in seen:
            continue
        seen.add(src)
        out.append((sig, src))
    return out


_RUST_WORDS = {"let", "mut", "match", "for", "in", "while", "if", "else", "return", "self", "Self", "Ok", "Err", "Some", "None", "fn", "impl", "move", "ref", "as", "loop", "break", "continue"}


def root_cause(detail):
    """Class of a twin that does not build: the first rustc error message and the shape of the generated Rust line it
    points at (identifiers and numbers erased) - the same defect reached through different rule x context twins is one
    class, whichever twins a tier happens to enumerate."""
    m = re.search(r"error(?:\[E\d+\])?: ([^\n]*)\n(?:[^\n]*\n){0,3}?\s*\d+ \| ([^\n]*)", detail or "")
    if not m:
        return "-"
    clean = lambda t: re.sub(r"[^A-Za-z0-9_(){}|=>&.:,\[\]]+", "_", t.strip()).strip("_")
    msg = clean(re.sub(r"\d+", "N", m.group(1)))[:60]
    shape = re.sub(r"[A-Za-z_][A-Za-z0-9_]*", lambda w: w.group(0) if w.group(0) in _RUST_WORDS else "_", m.group(2))
    shape = re.sub(r"(\|[^|]*\|).*", r"\1", shape)  # a closure is classified by its header, not by its body
    shape = clean(re.sub(r"\d+", "N", shape))[:40]
    return msg + "|at:" + shape


def run(tier):
    common.build(need_cli=True)
    pipe.warm()
    out = common.Outcome("C02", tier)
    # ---------------- (a) semantic corpus units -------------------------------------------------------------------
    units = [u for u in sem.corpus(tier) if u.tags[:1] != ("seq",)]  # the statement-sequence units are built by C01
    chk = c01.check_units(units)
    accepted = [u for u, c in zip(units, chk) if c["check"]["status"] == "ok"]
    normal = [u for u in accepted if not u.panics]
    packs = [normal[i : i + c01.PACK] for i in range(0, len(normal), c01.PACK)] + [[u] for u in accepted if u.panics]
    ran, failed = c01.build_packs(packs)
    for name, r in failed.items():
        u = next(x for x in units if x.name == name)
        inc, _ = sem.pack([u])
        out.fail(f"unit:{name}|{outcome_kind(r)}", {"program": inc, "stage": r.stage, "detail": r.detail, "stderr": r.stderr[-1500:], "tags": list(u.tags)})
    # ---------------- (a') placement lifts of the units that built: as a method of a class, in an imported module ----------------
    import zlib

    built_units = [u for u in accepted if u.name in ran]
    liftable = [u for u in built_units if sem.liftable(u)]
    if tier != "thorough":
        liftable = [u for u in liftable if u.name[:3] not in ("ar_", "fl_", "bo_", "gq_", "gi_") or zlib.crc32(u.name.encode()) % 3 == 0]
    lifted_m = [sem.lift_method(u) for u in liftable]
    chk_m = c01.check_units(lifted_m)
    acc_m = [u for u, c in zip(lifted_m, chk_m) if c["check"]["status"] == "ok"]
    _, failed_m = c01.build_packs([acc_m[i : i + c01.PACK] for i in range(0, len(acc_m), c01.PACK)])
    for name, r in failed_m.items():
        u = next(x for x in acc_m if x.name == name)
        out.fail(f"lift:method|unit:{name}|{outcome_kind(r)}", {"program": sem.pack([u])[0], "stage": r.stage, "detail": r.detail, "stderr": r.stderr[-1500:], "tags": list(u.tags)})
    _, failed_mod = c01.build_packs([liftable[i : i + c01.PACK] for i in range(0, len(liftable), c01.PACK)], module=True)
    for name, r in failed_mod.items():
        u = next(x for x in liftable if x.name == name)
        out.fail(f"lift:module|unit:{name}|{outcome_kind(r)}", {"program": json.dumps(sem.pack_module([u])[0]), "stage": r.stage, "detail": r.detail, "stderr": r.stderr[-1500:], "tags": list(u.tags)})
    multi = [u for u in built_units if not sem.liftable(u) and u.decls and not u.panics]
    gres = pipe.run_many([(k, sem.module_lift_general(u), {"run": False}) for k, u in enumerate(multi)])
    n_general_ok = 0
    for k, u in enumerate(multi):
        r = gres[k]
        if r.ok:
            n_general_ok += 1
        else:
            out.fail(f"lift:module-general|unit:{u.name}|{outcome_kind(r)}", {"program": json.dumps(sem.module_lift_general(u)), "stage": r.stage, "detail": r.detail, "stderr": r.stderr[-1500:], "tags": list(u.tags)})
    chain = [(u, sem.module_lift_chain(u)) for u in multi]
    chain = [(u, f) for u, f in chain if f]
    cres = pipe.run_many([(k, f, {"run": False}) for k, (u, f) in enumerate(chain)])
    n_chain_ok = n_chain_domain = 0
    for k, (u, f) in enumerate(chain):
        r = cres[k]
        if r.ok:
            n_chain_ok += 1
            n_chain_domain += 1
        elif r.stage == "check":
            continue  # the project is not accepted by the checker in this placement: outside the domain of the implication
        else:
            n_chain_domain += 1
            out.fail(f"lift:module-chain|unit:{u.name}|{outcome_kind(r)}", {"program": json.dumps(f), "stage": r.stage, "detail": r.detail, "stderr": r.stderr[-1500:], "tags": list(u.tags)})
    lift_cov = {"types_and_functions_in_two_modules": len(chain), "types_and_functions_in_two_modules_accepted": n_chain_domain, "types_and_functions_in_two_modules_built": n_chain_ok,
                "lifted_as_method": len(acc_m), "lifted_as_method_built": len(acc_m) - len(failed_m), "lifted_into_module": len(liftable), "lifted_into_module_built": len(liftable) - len(failed_mod),
                "multi_declaration_units_lifted_into_module": len(multi), "multi_declaration_units_lifted_built": n_general_ok}
    # ---------------- (a'') multi-file project shapes, really built under several hash orders -----------------------------
    # (the project writer iterates hash maps: a project can build under one iteration order and not under another)
    from . import c12

    shim = os.path.join(common.BUILD, "libverifrand.so")
    projects = {k: v for k, v in c12.programs("quick").items() if k in ("nested_three_levels", "dependency_constructs_imported_types", "example_multifile", "example_nested_project")}
    seeds = range(8) if tier == "thorough" else range(4)
    pjobs = []
    for name, files in projects.items():
        entry = files.get("__entry__", "main.incn")
        fs = {k: v for k, v in files.items() if not k.startswith("__")}
        for sd in seeds:
            pjobs.append(((name, sd), fs, {"run": False, "main": entry, "extra_env": {"LD_PRELOAD": shim, "VERIF_HASH_SEED": str(sd)}}))
    pres = pipe.run_many(pjobs)
    n_proj_ok = 0
    for (name, sd), fs, kw in pjobs:
        r = pres[(name, sd)]
        if r.ok:
            n_proj_ok += 1
        elif r.stage != "check":
            out.fail(f"project:{name}|{outcome_kind(r)}", {"program": json.dumps(fs), "hash_seed": sd, "stage": r.stage, "detail": r.detail, "stderr": r.stderr[-1500:], "tags": ["multi-file", name]})
    proj_cov = {"multi_file_projects": len(projects), "multi_file_project_builds": len(pjobs), "multi_file_project_builds_ok": n_proj_ok}
    # ---------------- (b) C03 benign twins --------------------------------------------------------------------------
    twins = twin_programs(tier)
    reqs = [{"id": i, "op": "front", "src": src, "emit": True} for i, (sig, src) in enumerate(twins)]
    fr = serve.run_requests(reqs)
    to_build = []
    n_acc = 0
    l1_fail = {}
    twin_fail = []
    for i, (sig, src) in enumerate(twins):
        r = fr[i]
        if r.get("crashed") or r["check"]["status"] != "ok":
            continue  # not in the domain (C03 reports twins that are rejected)
        n_acc += 1
        em = r["emit"]
        if em["status"] != "ok":
            kind = ("emit-panic" if em["status"] == "panic" else "codegen:" + re.sub(r"'[^']*'", "'_'", (em.get("detail") or ""))[:70]).replace(" ", "_")
            twin_fail.append((sig, src, kind, em.get("detail") or em.get("panic") or ""))
        else:
            to_build.append((i, sig, src))
    res = pipe.run_many([(i, {"prog.incn": src}, {"run": False}) for i, sig, src in to_build])
    n_built = 0
    for i, sig, src in to_build:
        r = res[i]
        if r.ok:
            n_built += 1
        else:
            twin_fail.append((sig, src, outcome_kind(r), r.stderr[-1500:]))
    for sig, src, kind, detail in twin_fail:
        if len(sig) == 1:
            l1_fail[sig[0]] = kind
    by_key = {}
    for sig, src, kind, detail in twin_fail:
        key = f"twin|{kind}|{root_cause(detail)}"
        by_key.setdefault(key, []).append({"program": src, "sig": list(sig), "detail": detail})
    for key, cs in by_key.items():
        cs.sort(key=lambda c: (len(c["sig"]), len(c["program"])))
        for c in cs[:2]:
            out.fail(key, c)
        if key in out.known_seen:
            out.known_seen[key][0] = len(cs)
    typed_cov, typed_sigs = typed_part(out, tier)
    lv_cov, lv_sigs = lvalue_part(out)
    typed_cov = {**typed_cov, **lv_cov}
    typed_sigs = typed_sigs | lv_sigs
    ok_sigs = {u.tags for u in accepted if u.name in ran} | {sig for (i, sig, src) in to_build if res[i].ok} | typed_sigs
    cov = {
        "evaluations": len(units) + len(twins),
        "distinct_nontrivial": len(ok_sigs),
        "rule": "programs = every unit of the semantic corpus (see C01), the single-function units again as a method of a class and as a pub function of an imported module (quick: a third), the multi-declaration units again with all declarations in an imported module, and with types and functions in two different imported modules, four multi-file project shapes (three-level nested packages, dependency-to-dependency construction, the repository's two multi-file examples) really built under 4 (thorough 8) hash iteration orders + the benign twin of every C03 rule x context case (quick: level 1 and a sixth of level 2; thorough: all of "
        "level 2 and a ninth of level 3), each with a main; + 41 typed expression atoms alone, nested in 7 container forms, and in all ordered pairs within one function "
        "(packed 60 functions per program, bisected; a pack that only fails as a whole is reported as such); + assignment targets: base (local, `mut` parameter, field of `mut self`) x 11 "
        "paths of fields and indices up to four steps deep (constant and variable index) x operator (=, +=), bisected per base; + writes through a loop variable: list base (local, `mut` parameter, field of `mut self`) x 12 places in the loop body (top, then / else / elif with and without a neighbouring statement, nested if, match arm, inner loops) x 3 kinds of write; domain = programs the real checker accepts; oracle = try_generate succeeds and `incan build` exits 0; "
        "non-trivial = distinct signatures of accepted programs that built",
        "samples": [{"sig": list(sig), "program": src} for sig, src in common.pick_samples(twins)],
        "exhaustive": True,
        "corpus_units": len(units),
        "corpus_units_accepted": len(accepted),
        "corpus_units_built": len(ran),
        "twins": len(twins),
        "twins_accepted": n_acc,
        "twins_built": n_built,
        "failing_by_class": {**{k: len(v) for k, v in by_key.items()}, **{f"unit:{n}": 1 for n in failed}},
        **lift_cov,
        **proj_cov,
        **typed_cov,
    }
    pipe.prune_targets()
    return out.finish(
        cov,
        assumptions=[
            "implication only: accepted by `TypeChecker::check_with_imports` => code generation and `incan build` succeed",
            "the offline cargo registry is what a user's cargo would resolve (generated programs depend only on incan_stdlib / incan_derive by path here)",
        ],
    )


def replay(path):
    common.build(need_cli=True)
    rec = json.load(open(path, encoding="utf-8"))
    src = rec["case"]["program"]
    r = pipe.run_program(0, {"prog.incn": src}, run=False)
    print(src)
    print("incan build:", "ok" if r.ok else f"FAILED at {r.stage}: {r.detail}")
    print(r.stderr[-1200:])
    return 0 if r.ok else 1


# ---------------------------------------------------------------------------------------------------------------------
# (c) typed expression atoms: alone, nested in containers, and in ordered pairs within one function
# ---------------------------------------------------------------------------------------------------------------------
T_ATOMS = {
    "int": "1",
    "arith": "n + 2 * n",
    "float": "1.5",
    "div": "n / 2",
    "floordiv": "n // 2",
    "mod": "n % 2",
    "pow": "n ** 2",
    "neg": "-n",
    "bool": "n > 1",
    "not": "not flag",
    "and": "flag and n > 0",
    "str": '"s"',
    "fstr": 'f"v={n}"',
    "str_upper": '"ab".upper()',
    "str_split": '"a,b".split(",")',
    "str_cmp": '"a" < "b"',
    "str_len": 'len("abc")',
    "list": "[1, 2, 3]",
    "list_str": '["a", "b"]',
    "list_nested": "[[1], [2, 3]]",
    "dict": '{"a": 1}',
    "dict_int": "{1: 2}",
    "set": "{1, 2}",
    "set_str": '{"a", "b"}',
    "set_float": "{1.5}",
    "set_model": "{Point(x=1, y=2)}",
    "tuple": '(1, "a")',
    "some": "Some(n)",
    "listcomp": "[i * 2 for i in xs]",
    "listcomp_if": "[i for i in xs if i > 0]",
    "dictcomp": "{i: i * i for i in xs}",
    "len": "len(xs)",
    "index": "xs[0]",
    "slice": "xs[1:]",
    "in": "n in xs",
    "model": "Point(x=1, y=2)",
    "field": "p.x",
    "enum": "Color.Red",
    "call": "takes_int(n)",
    "closure": "(a) => a + 1",
    "range": "range(3)",
}
T_NEST = {
    "list1": "[{E}]",
    "list2": "[{E}, {E}]",
    "dict_val": '{"k": {E}}',
    "dict_dict": '{"k": {"j": {E}}}',
    "tuple": "({E}, 1)",
    "some": "Some({E})",
    "paren": "({E})",
}


def typed_functions(tier, atoms=None):
    """Yield (sig, function_text). Every function has the same signature and the same local `p`.
    atoms=None: the single-atom functions; otherwise nesting and ordered pairs over the given (buildable) atoms."""
    head = "def {name}(n: int, flag: bool, xs: List[int]) -> None:\n    p = Point(x=1, y=2)\n"
    k = 0
    if atoms is None:
        for a, ea in T_ATOMS.items():
            k += 1
            yield (f"tatom:{a}",), head.format(name=f"s{k}") + f"    let v1 = {ea}\n"
        return
    A = {a: T_ATOMS[a] for a in atoms}
    for a, ea in A.items():
        for c, tpl in T_NEST.items():
            k += 1
            yield (f"tatom:{a}", f"tnest:{c}"), head.format(name=f"t{k}") + f"    let v1 = {tpl.replace('{E}', ea)}\n"
    for a, ea in A.items():
        for b, eb in A.items():
            k += 1
            yield (f"tatom:{a}", f"then:{b}"), head.format(name=f"t{k}") + f"    let v1 = {ea}\n    let v2 = {eb}\n"
    if tier == "thorough":
        for a, ea in A.items():
            for c, tpl in T_NEST.items():
                for b in ("dict", "set", "list", "fstr", "listcomp", "model", "str_split"):
                    if b not in A:
                        continue
                    k += 1
                    yield (f"tatom:{b}", f"then-nested:{a}", f"tnest:{c}"), head.format(name=f"t{k}") + f"    let v1 = {A[b]}\n    let v2 = {tpl.replace('{E}', ea)}\n"


TYPED_PACK = 60

# ---- assignment targets: base x path x operator ----------------------------------------------------------------------------
LV_PRELUDE = """model Inner:
    b: int
    c: List[int]


model Outer:
    a: Inner
    items: List[Inner]
    n: int


def mk_outer() -> Outer:
    return Outer(a=Inner(b=1, c=[1, 2]), items=[Inner(b=2, c=[3])], n=0)


"""
LV_PATHS_ONE = {"field": "{X}.n", "field2": "{X}.a.b", "field2_index": "{X}.a.c[0]", "field_index_field": "{X}.items[0].b", "field_index_field_index": "{X}.items[0].c[0]"}
LV_PATHS_MANY = {
    "index_field": "{XS}[0].n",
    "index_field2": "{XS}[0].a.b",
    "index_field2_index": "{XS}[0].a.c[0]",
    "index_field_index_field": "{XS}[0].items[0].b",
    "varindex_field": "{XS}[i].n",
    "varindex_field2": "{XS}[i].a.b",
}
LV_OPS = {"assign": "= 5", "cadd": "+= 1"}


def lvalue_functions():
    """Yield (sig, declaration text): one function / method per (base, path, operator)."""
    k = 0
    for pk, path in {**LV_PATHS_ONE, **LV_PATHS_MANY}.items():
        many = pk in LV_PATHS_MANY
        for ok_, op in LV_OPS.items():
            k += 1
            # local
            tgt = path.replace("{X}", "o").replace("{XS}", "os")
            decl = "mut os = [mk_outer()]" if many else "mut o = mk_outer()"
            yield ("lvalue:local", f"path:{pk}", f"op:{ok_}"), f"def lv_local_{k}(i: int) -> None:\n    {decl}\n    {tgt} {op}\n"
            # mut parameter
            par = "mut os: List[Outer]" if many else "mut o: Outer"
            yield ("lvalue:mut_param", f"path:{pk}", f"op:{ok_}"), f"def lv_param_{k}({par}, i: int) -> None:\n    {tgt} {op}\n"
            # field of self in a `mut self` method
            stgt = path.replace("{X}", "self.o").replace("{XS}", "self.os")
            fld = "os: List[Outer]" if many else "o: Outer"
            yield ("lvalue:self_field", f"path:{pk}", f"op:{ok_}"), f"class LvHolder{k}:\n    {fld}\n\n    def run(mut self, i: int) -> None:\n        {stgt} {op}\n"


# ---- writes through a loop variable: where in the loop body the write stands ----------------------------------------------
LOOP_WRITE_CTX = {
    "top": "{W}",
    "then": "if it.b > 0:\n    {W}",
    "else_only": "if it.b > 0:\n    pass\nelse:\n    {W}",
    "else_after_other_statement": "if it.b > 0:\n    pass\nelse:\n    total += 1\n    {W}",
    "else_before_other_statement": "if it.b > 0:\n    pass\nelse:\n    {W}\n    total += 1",
    "elif": "if it.b > 5:\n    pass\nelif it.b > 0:\n    {W}",
    "elif_after_other_statement": "if it.b > 5:\n    pass\nelif it.b > 0:\n    total += 1\n    {W}",
    "nested_if_in_else": "if it.b > 5:\n    pass\nelse:\n    if it.b > 0:\n        {W}",
    "match_arm": "match it.b:\n    case 0:\n        total += 1\n        {W}\n    case _:\n        pass",
    "inner_while": "while total < 0:\n    {W}",
    "inner_for": "for k in range(1):\n    {W}",
    "then_after_other_statement": "if it.b > 0:\n    total += 1\n    {W}",
}
LOOP_WRITES = {"field_assign": "it.b = 7", "field_compound": "it.b += 1", "nested_list_index": "it.c[0] = 7"}
LOOP_BASES = {
    "local_list": ("def lw_{K}(n: int) -> int:\n    mut items = [mk_outer().a, mk_outer().a]\n    mut total = 0\n    for it in items:\n{B}\n    return total + items[0].b\n"),
    "mut_param_list": ("def lw_{K}(mut items: List[Inner]) -> int:\n    mut total = 0\n    for it in items:\n{B}\n    return total + items[0].b\n"),
    "self_field_list": ("class LwHolder{K}:\n    items: List[Inner]\n\n    def run(mut self) -> int:\n        mut total = 0\n        for it in self.items:\n{B2}\n        return total\n"),
}


def loop_write_functions():
    k = 0
    for bk, tpl in LOOP_BASES.items():
        for ck, ctx in LOOP_WRITE_CTX.items():
            for wk, w in LOOP_WRITES.items():
                k += 1
                block = ctx.replace("{W}", w)
                body = "\n".join("        " + l for l in block.split("\n"))
                body2 = "\n".join("            " + l for l in block.split("\n"))
                yield ("loopwrite:" + bk, f"where:{ck}", f"write:{wk}"), tpl.replace("{K}", str(k)).replace("{B2}", body2).replace("{B}", body)


def lvalue_part(out):
    tail = "\n\ndef main() -> None:\n    pass\n"
    funs = list(lvalue_functions()) + list(loop_write_functions())
    reqs = [{"id": i, "op": "front", "src": LV_PRELUDE + f + tail, "emit": True} for i, (sig, f) in enumerate(funs)]
    fr = serve.run_requests(reqs)
    fails, good = [], []
    n_acc = 0
    for i, (sig, f) in enumerate(funs):
        r = fr[i]
        if r.get("crashed") or r["check"]["status"] != "ok":
            continue
        n_acc += 1
        em = r["emit"]
        if em["status"] != "ok":
            kind = ("emit-panic" if em["status"] == "panic" else "codegen:" + re.sub(r"'[^']*'", "'_'", (em.get("detail") or ""))[:70]).replace(" ", "_")
            fails.append((sig, LV_PRELUDE + f + tail, kind, em.get("detail") or em.get("panic") or ""))
        else:
            good.append((sig, f))
    packs = [[g for g in good if g[0][0] == b] for b in ("lvalue:local", "lvalue:mut_param", "lvalue:self_field", "loopwrite:local_list", "loopwrite:mut_param_list", "loopwrite:self_field_list")]
    packs = [p for p in packs if p]
    built = 0
    prog = lambda fs: LV_PRELUDE + "\n\n".join(f for _, f in fs) + tail
    while packs:
        res = pipe.run_many([(k, {"prog.incn": prog(p)}, {"run": False}) for k, p in enumerate(packs)])
        nxt = []
        for k, p in enumerate(packs):
            if res[k].ok:
                built += len(p)
            elif len(p) == 1:
                fails.append((p[0][0], prog(p), outcome_kind(res[k]), res[k].stderr[-1500:]))
            else:
                h = len(p) // 2
                nxt += [p[:h], p[h:]]
        packs = nxt
    # a (base, write) combination that fails wherever the write stands is one class, not one per position
    by_combo = {}
    for sig, src, kind, detail in fails:
        if sig[0].startswith("loopwrite:"):
            by_combo.setdefault((sig[0], sig[2], kind), set()).add(sig[1])
    everywhere = {c for c, wheres in by_combo.items() if len(wheres) == len(LOOP_WRITE_CTX)}
    reported = set()
    for sig, src, kind, detail in fails:
        if sig[0].startswith("loopwrite:") and (sig[0], sig[2], kind) in everywhere:
            key = f"{sig[0]}|where:every-position|{sig[2]}|{kind}"
            if key in reported:
                continue
            reported.add(key)
            out.fail(key, {"program": src, "sig": list(sig), "detail": detail})
        else:
            out.fail("|".join(sig) + f"|{kind}", {"program": src, "sig": list(sig), "detail": detail})
    ok_sigs = {sig for sig, f in good} - {sig for sig, *_ in fails}
    return {"lvalue_functions": len(funs), "lvalue_accepted": n_acc, "lvalue_built": built}, ok_sigs




def typed_part(out, tier):
    pre = c03.PRELUDE
    tail = "\n\ndef main() -> None:\n    pass\n"
    fails = []  # (sig, program, kind, detail)

    def screen(funs):
        """checker + in-process emission; returns functions that are accepted and emit."""
        reqs = [{"id": i, "op": "front", "src": pre + f + tail, "emit": True} for i, (sig, f) in enumerate(funs)]
        fr = serve.run_requests(reqs)
        acc = [(i, sig, f) for i, (sig, f) in enumerate(funs) if not fr[i].get("crashed") and fr[i]["check"]["status"] == "ok"]
        good = []
        for i, sig, f in acc:
            em = fr[i]["emit"]
            if em["status"] != "ok":
                kind = ("emit-panic" if em["status"] == "panic" else "codegen:" + re.sub(r"'[^']*'", "'_'", (em.get("detail") or ""))[:70]).replace(" ", "_")
                fails.append((sig, pre + f + tail, kind, em.get("detail") or em.get("panic") or ""))
            else:
                good.append((sig, f))
        return len(acc), good

    # stage 1: every atom alone, built separately; only atoms that build take part in nesting / pairs
    singles = list(typed_functions(tier))
    n_acc1, good1 = screen(singles)
    res1 = pipe.run_many([(k, {"prog.incn": pre + f + tail}, {"run": False}) for k, (sig, f) in enumerate(good1)])
    ok_atoms = []
    for k, (sig, f) in enumerate(good1):
        if res1[k].ok:
            ok_atoms.append(sig[0].split(":", 1)[1])
        else:
            fails.append((sig, pre + f + tail, outcome_kind(res1[k]), res1[k].stderr[-1500:]))
    funs = list(typed_functions(tier, ok_atoms))
    n_acc2, good = screen(funs)
    acc = range(n_acc1 + n_acc2)
    funs = singles + funs

    def prog(fs):
        return pre + "\n\n".join(f for _, f in fs) + "\n\ndef main() -> None:\n    pass\n"

    # import/feature scanners look at the whole program, so packing can mask a failure: nesting cases (and, in the thorough
    # tier, every case) are built one function per program; ordered pairs are packed in the quick tier
    solo = [g for g in good if tier == "thorough" or g[0][1].startswith("tnest:")]
    rest = [g for g in good if not (tier == "thorough" or g[0][1].startswith("tnest:"))]
    packs = [[g] for g in solo] + [rest[i : i + TYPED_PACK] for i in range(0, len(rest), TYPED_PACK)]
    built = len(ok_atoms)
    pack_only = []
    while packs:
        res = pipe.run_many([(k, {"prog.incn": prog(p)}, {"run": False}) for k, p in enumerate(packs)])
        nxt = []
        for k, p in enumerate(packs):
            r = res[k]
            if r.ok:
                built += len(p)
            elif len(p) == 1:
                fails.append((p[0][0], prog(p), outcome_kind(r), r.stderr[-1500:]))
            else:
                h = len(p) // 2
                nxt.append((p, r, p[:h], p[h:]))
        # a pack that fails although both halves build is reported as a whole (the failure needs several functions together)
        packs = []
        if nxt:
            halves = []
            for p, r, a, b in nxt:
                halves += [a, b]
            hres = pipe.run_many([(k, {"prog.incn": prog(h)}, {"run": False}) for k, h in enumerate(halves)])
            for j, (p, r, a, b) in enumerate(nxt):
                ra, rb = hres[2 * j], hres[2 * j + 1]
                if ra.ok and rb.ok:
                    built += 0
                    pack_only.append((p, r))
                else:
                    for h, rh in ((a, ra), (b, rb)):
                        if rh.ok:
                            built += len(h)
                        elif len(h) == 1:
                            fails.append((h[0][0], prog(h), outcome_kind(rh), rh.stderr[-1500:]))
                        else:
                            packs.append(h)
    l1 = {sig[0]: kind for sig, _, kind, _ in fails if len(sig) == 1}
    by_key = {}
    for sig, program, kind, detail in fails:
        key = f"typed:{sig[0]}|{kind}" if l1.get(sig[0]) == kind else "typed:" + "@".join(sig) + f"|{kind}"
        by_key.setdefault(key, []).append({"program": program, "sig": list(sig), "detail": detail})
    for p, r in pack_only:
        key = f"typed-pack-only|{outcome_kind(r)}"
        by_key.setdefault(key, []).append({"program": prog(p), "sig": ["pack of %d functions; fails only together" % len(p)] + ["+".join(s) for s, _ in p][:6], "detail": r.stderr[-1500:]})
    for key, cs in by_key.items():
        cs.sort(key=lambda c: (len(c["sig"]), len(c["program"])))
        for c in cs[:2]:
            out.fail(key, c)
        if key in out.known_seen:
            out.known_seen[key][0] = len(cs)
    return {"typed_functions": len(funs), "typed_accepted": len(acc), "typed_built": built, "typed_atoms_building_alone": ok_atoms, "typed_failing_by_class": {k: len(v) for k, v in by_key.items()}}, {s for s, _ in good}
