#!/bin/sh
# Build everything the checks need, offline, from files on disk only.
set -e
cd "$(dirname "$0")"
. ./env.sh
mkdir -p .build
[ -f harness/Cargo.lock ] || cp /repo/Cargo.lock harness/Cargo.lock
(cd harness && cargo build --release --offline)
(cd /repo && cargo build --release --offline --bin incan)
gcc -shared -fPIC -O2 -o .build/libverifrand.so shim/getrandom.c -ldl
# warm the 16 per-worker cargo target directories used by the checks that run real `incan build`
python3 -c "
import sys
sys.path.insert(0, '.')
from pspace import pipe
pipe.warm()
print('pipe workers warm')
"
echo "setup ok"
