"""C19 – offsets <-> positions: all documents up to a length bound over {a, é, 𝄞, \\n, \\r, ' '} x all offsets, positions, spans.

Enumeration, the real conversions and the (naive counting) reference all run in `ivh pos`; this wrapper turns its
summary into the exit protocol and the evidence file.
"""
import json
import subprocess

from . import common


def run_ivh(args):
    p = subprocess.run([common.IVH] + args, capture_output=True, text=True, encoding="utf-8")
    if p.returncode != 0:
        raise common.MachineryError(f"ivh {' '.join(args)} exited {p.returncode}: {p.stderr[-800:]}")
    return json.loads(p.stdout)


# ---- language-server half: ranges in published diagnostics and in symbol / hover / definition replies ---------------------
IMPORTS = {"from": "from b import helper_b", "import": "import b", "from_two": "from b import helper_b, other_b"}
ENTRY_LAYOUTS = {
    "first_line": "{IMP}\n\n\ndef main() -> None:\n{BODY}",
    "after_blank_lines": "\n\n\n\n{IMP}\n\n\ndef main() -> None:\n{BODY}",
    "after_multibyte_comment": "# héllo 𝄞 wörld\n{IMP}\n\n\ndef main() -> None:\n{BODY}",
    "after_docstring": '"""Doc é"""\n\n{IMP}\n\n\ndef main() -> None:\n{BODY}',
    "last_line_no_newline": "def main() -> None:\n{BODY}\n\n{IMP}",
}
ENTRY_BODIES = {
    "ok": "    pass\n",
    "unknown_after_multibyte": '    x = "é𝄞" + nope\n',
    "syntax_error_last_line": "    x = (1 +\n",
    "type_error": '    x: int = "é"\n',
}
DEP_KINDS = {
    "ok": "pub def helper_b() -> int:\n    return 1\n\n\npub def other_b() -> int:\n    return 2\n",
    "lex_unterminated_string": 'pub def helper_b() -> str:\n    return "abc\n',
    "lex_bad_char": "pub def helper_b() -> int:\n    return 1 $ 2\n",
    "lex_bad_char_multibyte": "pub def helper_b() -> int:\n    return é§ 1\n",
    "parse_error": "pub def helper_b(:\n    return 1\n",
    "type_error": "pub def helper_b() -> int:\n    return nope\n",
    "empty": "",
    "blank_only": "\n\n",
    "missing": None,
}
DEP_LAYOUTS = {
    "plain": "{D}",
    "eight_blank_lines_first": "\n\n\n\n\n\n\n\n{D}",
    "multibyte_comment_first": "# é𝄞é𝄞é𝄞é𝄞é𝄞é𝄞é𝄞é𝄞é𝄞é𝄞é𝄞é𝄞\n{D}",
    "long_first_line": "# " + "x" * 300 + "\n{D}",
    "short_lines_first": "#\n#\n#\n{D}",
}


def lsp_cases(tier):
    cases = []
    for ik, imp in IMPORTS.items():
        for lk, lay in ENTRY_LAYOUTS.items():
            for bk, body in ENTRY_BODIES.items():
                for crlf in (False, True):
                    entry = lay.replace("{IMP}", imp).replace("{BODY}", body)
                    if crlf:
                        entry = entry.replace("\n", "\r\n")
                    for dk, dep in DEP_KINDS.items():
                        for dl, dlay in DEP_LAYOUTS.items():
                            if dep is None and dl != "plain":
                                continue
                            if tier != "thorough" and (ik != "from" and (bk != "ok" or crlf)):
                                continue
                            d = None if dep is None else dlay.replace("{D}", dep)
                            for dep_open in ((False, True) if (d is not None and (tier == "thorough" or bk == "ok")) else (False,)):
                                sig = (f"import:{ik}", f"entry:{lk}", f"body:{bk}", f"crlf:{int(crlf)}", f"dep:{dk}", f"deplayout:{dl}", f"depopen:{int(dep_open)}")
                                cases.append((sig, entry, d, dep_open))
    return cases


def _lsp_run(args):
    k, chunk = args
    import os

    d = os.path.join(common.BUILD, "lsprange", f"p{k}")
    inp = "\n".join(json.dumps({"id": i, "entry": e, "dep": dep, "dep_open": op}) for i, (sig, e, dep, op) in enumerate(chunk)) + "\n"
    p = subprocess.run([common.IVH, "lsprange", "--dir", d], input=inp, capture_output=True, text=True, encoding="utf-8")
    if p.returncode != 0:
        raise common.MachineryError(f"ivh lsprange exited {p.returncode}: {p.stderr[-600:]}")
    return [json.loads(l) for l in p.stdout.splitlines() if l.startswith("{")]


def lsp_half(out, tier):
    import re
    import shutil
    from multiprocessing.pool import ThreadPool

    cases = lsp_cases(tier)
    idx = list(enumerate(cases))
    n = common.NCPU
    chunks = [(k, [(i, c) for i, c in idx[k::n]]) for k in range(n)]
    with ThreadPool(n) as pool:
        res = pool.map(lambda a: _lsp_run((a[0], [cc for i, cc in a[1]])), chunks)
    ranges = diags = 0
    ok = set()
    for (k, ch), rs in zip(chunks, res):
        if len(rs) != len(ch):
            raise common.MachineryError(f"lsprange answered {len(rs)} of {len(ch)} cases")
        for (i, (sig, entry, dep, dep_open)), r in zip(ch, rs):
            ranges += r["ranges"]
            diags += r["diagnostics"]
            if r["problems"]:
                for pr in r["problems"][:2]:
                    key = "lsp-range|" + re.sub(r"[^A-Za-z0-9_/|:-]+", "_", re.sub(r"\(\d+,\d+\)|\d+", "N", re.sub(r'".*?"', "_", pr)))[:70] + f"|{sig[4]}"
                    out.fail(key, {"doc": None, "sig": list(sig), "detail": pr, "entry": entry, "dependency_b_incn": dep, "dependency_open_in_editor": dep_open})
            elif r["ranges"]:
                ok.add(sig)
    shutil.rmtree(__import__("os").path.join(common.BUILD, "lsprange"), ignore_errors=True)
    return {"lsp_cases": len(cases), "lsp_ranges_checked": ranges, "lsp_diagnostics": diags, "lsp_signatures_with_ranges_ok": len(ok)}


def run(tier):
    common.build()
    out = common.Outcome("C19", tier)
    maxlen = 7 if tier == "thorough" else 5
    r = run_ivh(["pos", "--maxlen", str(maxlen), "--threads", str(common.NCPU)])
    expect_docs = sum(6**k for k in range(maxlen + 1))
    if r["docs"] != expect_docs:
        raise common.MachineryError(f"enumerated {r['docs']} documents, expected {expect_docs}")
    for v in r["violations"]:
        out.fail(v["kind"], {"doc": v["doc"], "detail": v["detail"]})
    if r["known_col_bytes"]:
        key = "terminal-column-counts-bytes"
        case = {"doc": None, "detail": r["known_col_witness"], "count": r["known_col_bytes"]}
        out.fail(key, case)
        if key in out.known_seen:
            out.known_seen[key][0] = r["known_col_bytes"]
    lsp = lsp_half(out, tier)
    cov = {
        "evaluations": r["evaluations"] + lsp["lsp_ranges_checked"],
        "distinct_nontrivial": r["classes"] + lsp["lsp_signatures_with_ranges_ok"],
        **lsp,
        "rule": f"all {r['docs']} documents of <= {maxlen} scalars over {{a, é, 𝄞, LF, CR, space}}; per document every byte offset 0..len+2, every position in the "
        "bounding box (lines+1 x maxcol+1), every span (s,e) with s,e <= len+2 through span_to_range, compile_error_to_diagnostic and format_error; "
        "distinct = document class (length, multi-byte/astral content, CR/CRLF, empty lines, final newline, line count); language-server half: a fresh real server "
        "(LspService driven to quiescence) per case of 3 import spellings x 5 entry layouts x 4 entry bodies x LF/CRLF x 9 dependency kinds (ok, three lex errors, parse error, type error, "
        "empty, blank, missing) x 5 dependency layouts x dependency open in the editor or only on disk (quick: the product is restricted as stated in the code); every range of every published "
        "diagnostic (incl. related information) and of documentSymbol / hover / definition replies must be a valid position pair of the document it is about",
        "samples": ["", "a\n", "é𝄞\r\n a", {"doc": "é", "offsets": [0, 1, 2, 3, 4], "positions": "(0..2)x(0..2)", "spans": "(0..4)x(0..4)"}],
        "exhaustive": True,
        "documents": r["docs"],
        "max_len": maxlen,
    }
    return out.finish(
        cov,
        assumptions=[
            "reference = counting '\\n' and chars in the prefix (LSP 'character' counted in Unicode scalars, as the module documents)",
            "positions past the end may be None or clamped (end of line / end of document)",
        ],
    )


def replay(path):
    common.build()
    rec = json.load(open(path, encoding="utf-8"))
    doc = rec["case"]["doc"]
    if doc is None and "entry" in rec["case"]:
        c = rec["case"]
        rs = _lsp_run((99, [(tuple(c["sig"]), c["entry"], c["dependency_b_incn"], c["dependency_open_in_editor"])]))
        print(json.dumps(rs, ensure_ascii=False, indent=1))
        return 1 if rs[0]["problems"] else 0
    if doc is None:
        print("no single document recorded:", rec["case"]["detail"])
        return 2
    r = run_ivh(["pos-one", "--doc", json.dumps(doc)])
    print(json.dumps(r, ensure_ascii=False, indent=1))
    return 1 if (r["violations"] or r["known_col_bytes"]) else 0
