#!/bin/sh
# usage: confirm_seed.sh <worktree>  – independently confirm a seeded change delivered in <worktree>/_seed:
#   (1) patch applies to a clean checkout, (2) suite passes with it, (3) run.sh fails with it, (4) run.sh passes without it.
# Writes <worktree>/_seed/CONFIRM.txt
wt=$1
cd "$wt" || exit 2
out=_seed/CONFIRM.txt
: > $out
export CARGO_NET_OFFLINE=true CARGO_TARGET_DIR=$wt/target
git checkout -q -- . 
if git apply --check _seed/patch.diff 2>>$out; then echo "applies: yes" >> $out; else echo "applies: NO" >> $out; exit 1; fi
git apply _seed/patch.diff
if [ -z "${SKIP_SUITE:-}" ]; then
cargo test --workspace --no-fail-fast --offline -j 6 -- --test-threads 6 > _seed/confirm_suite.log 2>&1
echo "suite_exit_with_change: $?" >> $out
else echo "suite: reusing earlier confirm_suite.log" >> $out; fi
echo "suite_ok_binaries: $(grep -c '^test result: ok' _seed/confirm_suite.log) failed_binaries: $(grep -c '^test result: FAILED' _seed/confirm_suite.log) passed_tests: $(grep '^test result' _seed/confirm_suite.log | sed 's/.*ok\. \([0-9]*\) passed.*/\1/' | paste -sd+ | bc)" >> $out
bash _seed/run.sh > _seed/confirm_demo_with.log 2>&1
echo "demo_exit_with_change: $?" >> $out
git checkout -q -- .
bash _seed/run.sh > _seed/confirm_demo_without.log 2>&1
echo "demo_exit_without_change: $?" >> $out
git apply _seed/patch.diff
cat $out
