#!/usr/bin/env python3
"""bounds_table.py <quick sweep log> <thorough sweep log>... – markdown rows (evaluations, non-trivial, known, wall) per property
from the one-line summaries `./check` prints; later logs override earlier ones."""
import re, sys
rows = {}
for k, path in enumerate(sys.argv[1:]):
    for line in open(path):
        m = re.match(r"(C\d\d) exit=(\d+) \[C\d\d/(\w+)\] evaluations=(\d+) distinct_nontrivial=(\d+) violations=(\d+) known=(\d+) wall=([0-9.]+)s", line)
        if m:
            pid, rc, tier, ev, nt, vio, kn, wall = m.groups()
            rows.setdefault(pid, {})[tier] = (int(ev), int(nt), int(vio), int(kn), float(wall), int(rc))
fmt = lambda t: "—" if t is None else f"{t[0]:,} evaluations, {t[1]:,} non-trivial, {t[3]} known-finding hits, {t[4]:.0f} s" + ("" if t[5] == 0 else f" (exit {t[5]}!)")
for pid in sorted(rows):
    print(f"| {pid} | {fmt(rows[pid].get('quick'))} | {fmt(rows[pid].get('thorough'))} |")
