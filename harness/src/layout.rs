//! C10: layout and comments never change the parse. For every base program and every position, apply every
//! meaning-preserving layout edit (and, for the global transforms, every pair global x local) and compare the AST
//! (spans erased) with the AST of the original. Edit positions come from the real lexer's token spans and never fall
//! inside a string / docstring / f-string / bytes token.
use crate::frontend::ast_sig;
use crate::util::{Shard, arg, catch, in_flight, jstr, start_watchdog};
use incan::frontend::lexer::{self, TokenKind};
use incan::frontend::parser;
use std::collections::BTreeMap;
use std::io::Write;

struct Base {
    src: String,
    sig: String,
    /// protected byte ranges (string-like tokens)
    prot: Vec<(usize, usize)>,
    /// (offset, depth_after) for every token end where bracket depth > 0 after the token and the next token is on
    /// the same logical bracketed region – candidate line-break positions
    breaks: Vec<usize>,
    /// bracket depth at the start of each line
    line_depth: Vec<usize>,
    /// byte offset of the start of each line
    line_start: Vec<usize>,
    multi_line_string: bool,
}

fn parse_sig(src: &str) -> Result<String, String> {
    match catch(|| {
        let toks = lexer::lex(src).map_err(|e| format!("lex error: {}", e.first().map(|x| x.message.clone()).unwrap_or_default()))?;
        let ast = parser::parse(&toks).map_err(|e| format!("parse error: {}", e.first().map(|x| x.message.clone()).unwrap_or_default()))?;
        Ok::<String, String>(ast_sig(&ast))
    }) {
        Ok(r) => r,
        Err(m) => Err(format!("panic: {m}")),
    }
}

fn analyse(src: &str) -> Option<Base> {
    let toks = lexer::lex(src).ok()?;
    let ast = parser::parse(&toks).ok()?;
    let sig = ast_sig(&ast);
    let mut prot = Vec::new();
    let mut breaks = Vec::new();
    let mut depth_events: Vec<(usize, i32)> = Vec::new();
    let mut depth: i32 = 0;
    let mut multi = false;
    for t in &toks {
        let (s, e) = (t.span.start, t.span.end);
        if e > src.len() || s > e {
            continue;
        }
        match &t.kind {
            TokenKind::String(_) | TokenKind::Bytes(_) | TokenKind::FString(_) => {
                prot.push((s, e));
                if src[s..e].contains('\n') {
                    multi = true;
                }
            }
            TokenKind::Newline | TokenKind::Indent | TokenKind::Dedent | TokenKind::Eof => continue,
            _ => {}
        }
        let text = &src[s..e];
        match text {
            "(" | "[" | "{" => {
                depth += 1;
                depth_events.push((e, 1));
            }
            ")" | "]" | "}" => {
                depth -= 1;
                depth_events.push((s, -1));
            }
            _ => {}
        }
        // a break may be inserted after this token if we are inside brackets afterwards
        let d_after = depth;
        if d_after > 0 {
            breaks.push(e);
        }
    }
    let mut line_start = vec![0usize];
    for (i, b) in src.bytes().enumerate() {
        if b == b'\n' {
            line_start.push(i + 1);
        }
    }
    let mut line_depth = Vec::new();
    for &ls in &line_start {
        let d: i32 = depth_events.iter().filter(|(o, _)| *o <= ls).map(|(_, d)| *d).sum();
        line_depth.push(d.max(0) as usize);
    }
    Some(Base {
        src: src.to_string(),
        sig,
        prot,
        breaks,
        line_depth,
        line_start,
        multi_line_string: multi,
    })
}

impl Base {
    fn strictly_inside_string(&self, p: usize) -> bool {
        self.prot.iter().any(|&(s, e)| p > s && p < e)
    }
}

fn leading_ws(line: &str) -> usize {
    line.len() - line.trim_start_matches([' ', '\t']).len()
}

/// Local edits: (description, position class, edited source)
fn local_edits(b: &Base, f: &mut dyn FnMut(String, &str, String)) {
    let src = &b.src;
    let n_lines = b.line_start.len();
    for li in 0..n_lines {
        let ls = b.line_start[li];
        let le = if li + 1 < n_lines { b.line_start[li + 1] - 1 } else { src.len() };
        if ls > src.len() {
            continue;
        }
        let line = &src[ls..le.max(ls)];
        let in_br = b.line_depth[li] > 0;
        let ctx = if in_br { "in-brackets" } else { "block" };
        let cur = leading_ws(line);
        // --- insertions at the line boundary (before this line) ---
        if !b.strictly_inside_string(ls) && !(ls > 0 && b.strictly_inside_string(ls - 1) && b.strictly_inside_string(ls)) {
            let mut indents = vec![0usize, cur, cur + 1, cur + 4];
            if cur > 0 {
                indents.push(cur - 1);
            }
            indents.sort();
            indents.dedup();
            for ind in indents {
                let ins = format!("{}# c\n", " ".repeat(ind));
                f(format!("comment-line@{li} indent={ind}"), &format!("comment-line:{ctx}"), splice(src, ls, &ins));
            }
            for (k, text) in COMMENT_TEXTS.iter().enumerate() {
                let ins = format!("{}{text}\n", " ".repeat(cur));
                f(format!("comment-line@{li} text={k}"), &format!("comment-line-text{k}:{ctx}"), splice(src, ls, &ins));
            }
            f(format!("empty-line@{li}"), &format!("empty-line:{ctx}"), splice(src, ls, "\n"));
            f(format!("blank-line@{li} w=3"), &format!("blank-line:{ctx}"), splice(src, ls, "   \n"));
            f(format!("blank-line@{li} w={}", cur + 2), &format!("blank-line:{ctx}"), splice(src, ls, &format!("{}\n", " ".repeat(cur + 2))));
            f(format!("tab-line@{li}"), &format!("tab-line:{ctx}"), splice(src, ls, "\t\n"));
        }
        // --- appends at the end of this line ---
        if li + 1 < n_lines || !line.is_empty() {
            let p = ls + line.len();
            if !b.strictly_inside_string(p) && !(p > 0 && b.prot.iter().any(|&(s, e)| p > s && p < e)) && !line.ends_with('\\') && !line.trim().is_empty() {
                f(format!("trailing-comment@{li}"), &format!("trailing-comment:{ctx}"), splice(src, p, "  # c"));
                // comment text is data: multi-byte and astral characters, quotes, brackets, a second hash, no space after `#`
                for (k, text) in COMMENT_TEXTS.iter().enumerate() {
                    f(format!("trailing-comment@{li} text={k}"), &format!("trailing-comment-text{k}:{ctx}"), splice(src, p, &format!("  {text}")));
                }
                f(format!("trailing-spaces@{li}"), &format!("trailing-spaces:{ctx}"), splice(src, p, "  "));
                f(format!("trailing-tab@{li}"), &format!("trailing-tab:{ctx}"), splice(src, p, "\t"));
            }
        }
    }
    // --- line breaks inside brackets ---
    for &p in &b.breaks {
        if b.strictly_inside_string(p) {
            continue;
        }
        // indentation of the line containing p
        let li = match b.line_start.binary_search(&p) {
            Ok(i) => i,
            Err(i) => i - 1,
        };
        let ls = b.line_start[li];
        let le = src[ls..].find('\n').map(|i| ls + i).unwrap_or(src.len());
        let cur = leading_ws(&src[ls..le]);
        for ind in [0usize, 1, cur + 4] {
            let ins = format!("\n{}", " ".repeat(ind));
            f(format!("break-in-brackets@{p} indent={ind}"), "break-in-brackets", splice(src, p, &ins));
        }
    }
    // --- final newline ---
    if src.ends_with('\n') {
        f("drop-final-newline".to_string(), "final-newline", src[..src.len() - 1].to_string());
    }
    f("double-final-newline".to_string(), "final-newline", format!("{src}\n"));
}

/// Comment texts beyond `# c` (the text of a comment is data and must not influence the token stream).
const COMMENT_TEXTS: [&str; 5] = ["# é → ✓ 𝄞𝄞𝄞 ───", "#\"unterminated ( [ {", "## def f(): # nested", "#", "# tab\there \\"];

fn splice(src: &str, at: usize, ins: &str) -> String {
    let mut s = String::with_capacity(src.len() + ins.len());
    s.push_str(&src[..at]);
    s.push_str(ins);
    s.push_str(&src[at..]);
    s
}

/// Global transforms; each returns None when not applicable to this text.
fn global_transforms(b: &Base) -> Vec<(&'static str, String)> {
    let mut out = Vec::new();
    let src = &b.src;
    if !b.multi_line_string {
        out.push(("crlf", src.replace('\n', "\r\n")));
    }
    for (name, unit) in [("reindent-2", "  "), ("reindent-3", "   "), ("reindent-8", "        "), ("reindent-tabs", "\t")] {
        if let Some(t) = reindent(b, unit) {
            out.push((name, t));
        }
    }
    out
}

fn reindent(b: &Base, unit: &str) -> Option<String> {
    let src = &b.src;
    let mut out = String::with_capacity(src.len() * 2);
    let n_lines = b.line_start.len();
    for li in 0..n_lines {
        let ls = b.line_start[li];
        let le = if li + 1 < n_lines { b.line_start[li + 1] } else { src.len() };
        let line = &src[ls..le];
        if b.strictly_inside_string(ls) || (ls > 0 && b.prot.iter().any(|&(s, e)| ls > s && ls < e)) || b.line_depth[li] > 0 {
            out.push_str(line);
            continue;
        }
        let ws = leading_ws(line);
        let lead = &line[..ws];
        if lead.contains('\t') {
            return None;
        }
        if line.trim().is_empty() || line.trim_start().starts_with('#') {
            // blank / comment lines: keep as they are (their indentation is irrelevant)
            out.push_str(line);
            continue;
        }
        if ws % 4 != 0 {
            return None; // base program is not on a 4-space grid
        }
        out.push_str(&unit.repeat(ws / 4));
        out.push_str(&line[ws..]);
    }
    Some(out)
}

pub fn run_layout(args: &[String]) {
    let list = arg(args, "--files").expect("--files <list>");
    let pairs = arg(args, "--pairs").as_deref() != Some("0");
    let shard = Shard::from_args(args);
    let files: Vec<String> = std::fs::read_to_string(&list).expect("list").lines().map(|s| s.to_string()).collect();
    let stdout = std::io::stdout();
    let mut out = stdout.lock();
    start_watchdog(30);
    let mut evals: u64 = 0;
    let mut bases: u64 = 0;
    let mut skipped: u64 = 0;
    let mut problems: u64 = 0;
    let mut classes: BTreeMap<String, u64> = BTreeMap::new();
    for (fi, f) in files.iter().enumerate() {
        if !shard.mine(fi as u64) {
            continue;
        }
        let Ok(src) = std::fs::read_to_string(f) else { continue };
        let Some(base) = analyse(&src) else {
            skipped += 1;
            continue;
        };
        bases += 1;
        let mut check = |desc: String, class: &str, edited: String, sig: &str, out: &mut dyn Write| {
            in_flight(|| format!("{f}\t{desc}"));
            evals += 1;
            *classes.entry(class.to_string()).or_insert(0) += 1;
            let r = parse_sig(&edited);
            let prob = match r {
                Ok(s) if s == sig => None,
                Ok(_) => Some("syntax tree differs".to_string()),
                Err(m) => Some(m),
            };
            if let Some(p) = prob {
                problems += 1;
                if problems <= 500 {
                    let _ = writeln!(
                        out,
                        "{{\"file\":{},\"edit\":{},\"class\":{},\"problem\":{},\"edited\":{}}}",
                        jstr(f),
                        jstr(&desc),
                        jstr(class),
                        jstr(&p),
                        jstr(&edited)
                    );
                }
            }
        };
        // single local edits
        let sig0 = base.sig.clone();
        local_edits(&base, &mut |d, c, e| check(d, c, e, &sig0, &mut out));
        // global transforms and (global x local) pairs
        for (gname, gsrc) in global_transforms(&base) {
            check(gname.to_string(), gname, gsrc.clone(), &sig0, &mut out);
            if pairs {
                if let Some(gb) = analyse(&gsrc) {
                    if gb.sig == sig0 {
                        local_edits(&gb, &mut |d, c, e| check(format!("{gname} + {d}"), &format!("{gname}+{c}"), e, &sig0, &mut out));
                    }
                }
            }
        }
    }
    let _ = writeln!(
        out,
        "{{\"summary\":true,\"bases\":{bases},\"skipped\":{skipped},\"evaluations\":{evals},\"problems\":{problems},\"classes\":{}}}",
        serde_json::to_string(&classes).unwrap_or_default()
    );
}
