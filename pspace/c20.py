"""C20 – derived JSON, equality, ordering and hashing are structural and round-trip.

model declarations (1-3 fields over a type alphabet) x small value alphabets per type (empty string/collection, negatives,
non-ASCII, astral, every JSON-escape class, None/Some). Each program prints json_stringify(v), the from_json round trip,
from_json of key-permuted text, pairwise ==, <, and clone independence; the expectation is computed by CPython
(json.dumps with declared field order, tuple comparison in declaration order).
"""
import itertools
import json
import re

from . import common, pipe, sem, serve

# type -> (incan type text, list of (incan literal, python value))
TYPES = {
    "int": ("int", [("0", 0), ("-7", -7), ("42", 42)]),
    "bool": ("bool", [("True", True), ("False", False)]),
    "str": ("str", [('""', ""), ('"abc"', "abc"), ('"héllo"', "héllo"), ('"𝄞 astral"', "𝄞 astral")]),
    "str_esc": ("str", [('"q\\"uote"', 'q"uote'), ('"back\\\\slash"', "back\\slash"), ('"sl/ash"', "sl/ash"), ('"new\\nline"', "new\nline"), ('"tab\\there"', "tab\there"), ('"sp ace"', "sp ace")]),
    "float": ("float", [("1.5", 1.5), ("-0.25", -0.25), ("100.125", 100.125)]),
    "list_int": ("List[int]", [("[]", []), ("[1, -2, 3]", [1, -2, 3])]),
    "opt_int": ("Option[int]", [("None", None), ("Some(3)", 3), ("Some(-1)", -1)]),
    "opt_str": ("Option[str]", [("None", None), ('Some("x")', "x")]),
    "dict_str_int": ("Dict[str, int]", [("{}", {}), ('{"k": 1}', {"k": 1})]),
}
ORDERED = {"int", "bool", "str", "str_esc", "list_int", "opt_int", "opt_str"}  # types with a total order in both worlds
HASHABLE = {"int", "bool", "str", "str_esc", "list_int", "opt_int", "opt_str"}


def shapes(tier):
    """Field-type tuples."""
    names = list(TYPES)
    out = [(t,) for t in names]
    pairs = [("int", "str"), ("str", "int"), ("bool", "opt_int"), ("str_esc", "list_int"), ("float", "str"), ("opt_str", "dict_str_int"), ("list_int", "int"), ("int", "int")]
    out += pairs
    if tier == "thorough":
        out += [p for p in itertools.permutations(names, 2) if p not in pairs]
        out += [("int", "str", "bool"), ("str", "opt_int", "list_int"), ("float", "int", "str_esc"), ("bool", "bool", "int"), ("opt_str", "str", "dict_str_int")]
    else:
        out += [("int", "str", "bool"), ("str", "opt_int", "list_int")]
    return out


def py_order_key(t, v):
    if t.startswith("opt_"):
        return (0,) if v is None else (1, v)
    return v


def build_program(shape, with_clone=True):
    """Return (incan source, expected stdout lines, capability flags)."""
    fields = [f"f{i}" for i in range(len(shape))]
    can_ord = all(t in ORDERED for t in shape)
    can_hash = all(t in HASHABLE for t in shape)
    derives = ["Debug", "Clone", "Serialize", "Deserialize"] + (["Eq"] if can_hash else []) + (["Ord"] if can_ord else []) + (["Hash"] if can_hash else [])
    decl = f"@derive({', '.join(derives)})\nmodel Rec:\n" + "".join(f"    {f}: {TYPES[t][0]}\n" for f, t in zip(fields, shape))
    # value tuples: vary one field at a time around the first value + the all-last tuple
    base = [TYPES[t][1][0] for t in shape]
    tuples = [list(base)]
    for i, t in enumerate(shape):
        for alt in TYPES[t][1][1:]:
            tup = list(base)
            tup[i] = alt
            tuples.append(tup)
    tuples.append([TYPES[t][1][-1] for t in shape])
    uniq = []
    for tup in tuples:
        if tup not in uniq:
            uniq.append(tup)
    tuples = uniq[:7]
    lines, exp = [], []
    for k, tup in enumerate(tuples):
        args = ", ".join(f"{f}={lit}" for f, (lit, _) in zip(fields, tup))
        lines.append(f"v{k} = Rec({args})")
    pyvals = [[pv for _, pv in tup] for tup in tuples]

    def dumps(vals):
        return json.dumps({f: v for f, v in zip(fields, vals)}, separators=(",", ":"), ensure_ascii=False)

    for k, vals in enumerate(pyvals):
        lines.append(f"s{k} = json_stringify(v{k})")
        lines.append(f'println("J{k}")')
        lines.append(f"println(s{k})")
        exp += [f"J{k}", dumps(vals)]
        # round trip
        lines.append(f"match Rec.from_json(s{k}):\n    case Ok(w{k}):\n        println(json_stringify(w{k}))" + (f"\n        println(w{k} == v{k})" if can_hash else "") + f'\n    case Err(e{k}):\n        println("ERR")')
        exp += [dumps(vals)] + (["true"] if can_hash else [])
    # key-permuted hand-made text for the last value
    if len(fields) > 1:
        vals = pyvals[-1]
        perm = json.dumps({f: v for f, v in reversed(list(zip(fields, vals)))}, separators=(",", ":"), ensure_ascii=False)
        lit = json.dumps(perm, ensure_ascii=False)  # a double-quoted, escaped Incan string literal
        lines.append(f"match Rec.from_json({lit}):\n    case Ok(wp):\n        println(json_stringify(wp))\n    case Err(ep):\n        println(\"ERR\")")
        exp += [dumps(vals)]
    if can_hash:
        for a, b in itertools.combinations(range(min(4, len(tuples))), 2):
            lines.append(f"println(v{a} == v{b})")
            exp.append("true" if pyvals[a] == pyvals[b] else "false")
        if with_clone:
            lines.append("vc = v1.clone()")
            lines.append("println(vc == v1)")
            exp.append("true")
    if can_ord:
        for a, b in itertools.permutations(range(min(4, len(tuples))), 2):
            lines.append(f"println(v{a} < v{b})")
            ka = tuple(py_order_key(t, v) for t, v in zip(shape, pyvals[a]))
            kb = tuple(py_order_key(t, v) for t, v in zip(shape, pyvals[b]))
            exp.append("true" if ka < kb else "false")
    src = decl + "\n\ndef main() -> None:\n" + "\n".join("    " + l for block in lines for l in block.split("\n")) + "\n"
    return src, exp, {"ord": can_ord, "hash": can_hash}


def hier_program(depth, kind="class", with_methods=True):
    """A class hierarchy `depth` levels deep (each level adds one int field); the deepest class derives everything.
    Declaration order of the fields is oldest ancestor first. Values: all 0/1 vectors, so that levels disagree in direction."""
    names = ["Base", "Mid", "Leaf"][:depth]
    fields = ["alpha", "beta", "gamma"][:depth]
    decl = ""
    for i, (n, f) in enumerate(zip(names, fields)):
        head = f"{kind} {n}" + (f" extends {names[i - 1]}" if i else "") + ":"
        decl += f"@derive(Debug, Clone, Eq, Ord, Hash, Serialize, Deserialize)\n{head}\n    {f}: int\n" + (f"\n    def tag{i}(self) -> int:\n        return {i}\n" if with_methods else "") + "\n\n"
    top = names[-1]
    vals = list(itertools.product((0, 1), repeat=depth))
    lines, exp = [], []
    for k, v in enumerate(vals):
        args = ", ".join(f"{f}={x}" for f, x in zip(fields, v))
        lines.append(f"v{k} = {top}({args})")
    for k, v in enumerate(vals):
        lines.append(f"println(json_stringify(v{k}))")
        exp.append(json.dumps({f: x for f, x in zip(fields, v)}, separators=(",", ":")))
    for a, b in itertools.permutations(range(len(vals)), 2):
        lines.append(f"println(v{a} < v{b})")
        exp.append("true" if vals[a] < vals[b] else "false")
        lines.append(f"println(v{a} == v{b})")
        exp.append("false")
    src = decl + "def main() -> None:\n" + "\n".join("    " + l for l in lines) + "\n"
    return src, exp, {"ord": True, "hash": True}


def fieldless_program(kind):
    """A type without fields (methods only) is a JSON object `{}` wherever it occurs: alone, as a field, as a list element;
    `from_json("{}")` gives it back."""
    decl = (
        f"@derive(Debug, Clone, Eq, Serialize, Deserialize)\n{kind} Marker:\n    def label(self) -> str:\n        return \"m\"\n\n\n"
        "@derive(Debug, Clone, Eq, Serialize, Deserialize)\nmodel Holder:\n    name: str\n    m: Marker\n    ms: List[Marker]\n    n: int\n\n\n"
    )
    lines = [
        "a = Marker()",
        "println(json_stringify(a))",
        "println(a.label())",
        "println(a == Marker())",
        'h = Holder(name="h", m=Marker(), ms=[Marker(), Marker()], n=-1)',
        "println(json_stringify(h))",
        'match Marker.from_json("{}"):\n    case Ok(back):\n        println(back == a)\n    case Err(e):\n        println("from_json failed")',
        'match Holder.from_json("{\\"name\\":\\"h\\",\\"m\\":{},\\"ms\\":[{},{}],\\"n\\":-1}"):\n    case Ok(hb):\n        println(hb == h)\n    case Err(e2):\n        println("from_json failed")',
        "match Holder.from_json(json_stringify(h)):\n    case Ok(hc):\n        println(hc == h)\n    case Err(e3):\n        println(\"from_json failed\")",
    ]
    exp = ["{}", "m", "true", '{"name":"h","m":{},"ms":[{},{}],"n":-1}', "true", "true", "true"]
    src = decl + "def main() -> None:\n" + "\n".join("    " + l.replace("\n", "\n    ") for l in lines) + "\n"
    return src, exp, {"ord": False, "hash": False}


def hash_program(shape):
    """Sets and dicts keyed by the model: equal values must collapse, membership must follow structural equality."""
    fields = [f"f{i}" for i in range(len(shape))]
    decl = "@derive(Debug, Clone, Eq, Hash)\nmodel Rec:\n" + "".join(f"    {f}: {TYPES[t][0]}\n" for f, t in zip(fields, shape))
    base = [TYPES[t][1][0] for t in shape]
    tuples = [list(base)]
    for i, t in enumerate(shape):
        for alt in TYPES[t][1][1:]:
            tup = list(base)
            tup[i] = alt
            if tup not in tuples:
                tuples.append(tup)
    tuples = tuples[:5]

    def ctor(tup):
        return "Rec(" + ", ".join(f"{f}={lit}" for f, (lit, _) in zip(fields, tup)) + ")"

    def key(tup):
        return tuple(tuple(v) if isinstance(v, list) else v for _, v in tup)

    elems = tuples + [tuples[0], tuples[-1]]  # duplicates written as fresh constructor expressions
    lines = ["hs = {" + ", ".join(ctor(t) for t in elems) + "}", "println(len(hs))"]
    exp = [str(len({key(t) for t in elems}))]
    lines.append("dm = {" + ", ".join(f"{ctor(t)}: {k}" for k, t in enumerate(elems)) + "}")
    lines.append("println(len(dm))")
    exp.append(str(len({key(t) for t in elems})))
    members = {key(t) for t in tuples[:-1]}
    lines.append("hs2 = {" + ", ".join(ctor(t) for t in tuples[:-1]) + "}")
    for t in tuples:
        lines.append(f"println({ctor(t)} in hs2)")
        exp.append("true" if key(t) in members else "false")
    src = decl + "\n\ndef main() -> None:\n" + "\n".join("    " + l for l in lines) + "\n"
    return src, exp, {"ord": False, "hash": True}


def json_line_equal(got, want):
    """Field order of the top-level object is textual; nested dict key order is not fixed (hash map)."""
    if got == want:
        return True
    try:
        g = json.loads(got, object_pairs_hook=list)
        w = json.loads(want, object_pairs_hook=list)
    except ValueError:
        return False
    if not isinstance(g, list) or [k for k, _ in g] != [k for k, _ in w]:
        return False
    return json.loads(got) == json.loads(want)


def run(tier):
    common.build(need_cli=True)
    pipe.warm()
    out = common.Outcome("C20", tier)
    cases = []
    for shape in shapes(tier):
        src, exp, caps = build_program(shape)
        cases.append((shape, src, exp, caps))
    for shape in shapes(tier):
        if all(t in HASHABLE for t in shape) and len(shape) <= 2:
            src, exp, caps = hash_program(shape)
            cases.append((("hash",) + tuple(shape), src, exp, caps))
    for depth in (1, 2, 3):
        src, exp, caps = hier_program(depth)
        cases.append((("class-hierarchy", f"depth{depth}"), src, exp, caps))
        src, exp, caps = hier_program(depth, with_methods=False)
        cases.append((("class-hierarchy", f"depth{depth}", "no-methods"), src, exp, caps))
    for kind in ("model", "class"):
        src, exp, caps = fieldless_program(kind)
        cases.append((("fieldless", kind), src, exp, caps))
    fr = serve.run_requests([{"id": i, "op": "front", "src": c[1], "emit": False} for i, c in enumerate(cases)])
    # `.clone()` is documented for @derive(Clone) but the checker of the pinned tree rejects it on models: where that is the
    # only complaint, the clone observation is dropped for that shape (recorded in the evidence) instead of losing the shape
    clone_dropped = []
    for i, c in enumerate(cases):
        errs = [] if fr[i].get("crashed") else fr[i]["check"]["errs"]
        if errs and all("has no method 'clone" in m for m, _, _ in errs) and c[0][0] not in ("class-hierarchy", "hash"):
            src, exp, caps = build_program(c[0], with_clone=False)
            cases[i] = (c[0], src, exp, caps)
            clone_dropped.append("+".join(c[0]))
    if clone_dropped:
        fr = serve.run_requests([{"id": i, "op": "front", "src": c[1], "emit": False} for i, c in enumerate(cases)])
    build = [(i, c) for i, c in enumerate(cases) if not fr[i].get("crashed") and fr[i]["check"]["status"] == "ok"]
    rejected = {"+".join(c[0]): (fr[i]["check"]["errs"][:1] or fr[i]["parse"]["errs"][:1]) for i, c in enumerate(cases) if fr[i].get("crashed") or fr[i]["check"]["status"] != "ok"}
    res = pipe.run_many([(i, {"prog.incn": c[1]}, {"timeout": 120}) for i, c in build])
    by_key = {}
    not_built = {}
    n_lines = 0
    sig_ok = set()
    for i, (shape, src, exp, caps) in build:
        r = res[i]
        name = "+".join(shape)
        if r.stage != "run":
            not_built[name] = f"{r.stage}: {(r.detail or '')[:80]}"
            continue
        got = r.stdout.rstrip("\n").split("\n")
        if r.exit != 0:
            by_key.setdefault(f"shape:{name}|program-stopped", []).append({"shape": list(shape), "program": src, "exit": r.exit, "stderr": r.stderr[-400:]})
            continue
        bad = None
        if len(got) != len(exp):
            bad = f"printed {len(got)} lines, expected {len(exp)}"
        else:
            for k, (g, w) in enumerate(zip(got, exp)):
                n_lines += 1
                if not (g == w or json_line_equal(g, w)):
                    bad = f"line {k}: printed {g!r}, expected {w!r}"
                    break
        if bad:
            kind = "json" if "{" in bad else "comparison"
            by_key.setdefault(f"shape:{name}|{kind}-differs", []).append({"shape": list(shape), "program": src, "why": bad, "stdout": r.stdout[-800:], "expected": exp})
        else:
            sig_ok.add(shape)
    for key, cs in by_key.items():
        for c in cs[:1]:
            out.fail(key, c)
    cov = {
        "evaluations": n_lines,
        "distinct_nontrivial": len(sig_ok),
        "rule": "model shapes: every single field type of {int, bool, str, str with JSON-escape classes, float, List[int], Option[int], Option[str], Dict[str,int]}, 8 two-field and "
        "2 three-field shapes (thorough: all ordered pairs and 5 triples), and class hierarchies 1, 2 and 3 levels deep (one int field per level, all 0/1 value vectors, all ordered pairs compared), and, per hashable shape, a set and a dict keyed by the model with duplicate and distinct values (len and membership); values: one field varied at a time over its alphabet plus the all-last tuple (<= 7 values per shape); "
        "observations per value: json_stringify text, from_json round trip (text and ==), key-permuted input, pairwise == and <, clone equality; evaluations = output lines compared; "
        "non-trivial = shapes whose whole program built, ran and matched",
        "samples": [{"shape": list(c[0]), "program": c[1]} for c in common.pick_samples(cases)],
        "exhaustive": True,
        "shapes": len(cases),
        "accepted_by_checker": len(build),
        "clone_observation_dropped_checker_rejects_clone": clone_dropped,
        "rejected_by_checker": rejected,
        "accepted_but_not_built": not_built,
        "failing_by_class": {k: len(v) for k, v in by_key.items()},
    }
    pipe.prune_targets()
    return out.finish(
        cov,
        assumptions=[
            "reference JSON = CPython json.dumps(separators=(',', ':'), ensure_ascii=False) with keys in declaration order; nested Dict key order is compared as a set",
            "ordering reference = tuple comparison in declaration order with None < Some(_); floats and dicts take no part in ==/</hash (not derivable)",
            "shapes whose program does not build are not judged here (counted in the evidence)",
        ],
    )


def replay(path):
    common.build(need_cli=True)
    rec = json.load(open(path, encoding="utf-8"))
    c = rec["case"]
    r = pipe.run_program(0, {"prog.incn": c["program"]}, timeout=120)
    print(c["program"])
    print("stage", r.stage, r.detail, "exit", r.exit)
    print(r.stdout)
    print("expected:", c.get("expected"))
    return 1
