"""C10 – layout and comments never change the parse.

`ivh layout` enumerates, for every base program, every meaning-preserving layout edit at every position computed from the
real lexer's token spans (never inside a string-like token), every global transform (CRLF, re-indent to 2/3/8 spaces or
tabs) and every pair (global transform x local edit), and compares the span-erased AST with the original's.
"""
import json
import os
import subprocess
from multiprocessing import Pool

from . import common, corpus


def _run(args):
    lst, i, n, pairs = args
    p = subprocess.run(
        [common.IVH, "layout", "--files", lst, "--shard", f"{i}/{n}", "--pairs", "1" if pairs else "0"], capture_output=True, text=True, encoding="utf-8"
    )
    problems, summary = [], None
    for line in p.stdout.splitlines():
        if not line.startswith("{"):
            continue
        r = json.loads(line)
        if r.get("summary"):
            summary = r
        else:
            problems.append(r)
    hang = [l for l in p.stderr.splitlines() if l.startswith("HANG")]
    if hang:
        problems.append({"file": hang[0], "edit": "?", "class": "hang", "problem": "did not terminate (watchdog)", "edited": None})
        summary = summary or {"bases": 0, "skipped": 0, "evaluations": 0, "problems": 1, "classes": {}}
    if summary is None:
        raise common.MachineryError(f"ivh layout shard {i} failed ({p.returncode}): {p.stderr[-400:]}")
    return problems, summary


def base_files(tier):
    files = corpus.files()
    if tier != "thorough":
        files = [f for i, f in enumerate(files) if i % 2 == 0]
    from . import gen

    # every level-1 generated program (each atom alone) is a base in both tiers: file-end and block-end effects depend on
    # which construct comes last
    return files + gen.write_base_programs(os.path.join(common.BUILD, "c10_gen"), tier)


def classify(pr):
    """Failure-class key: edit class + problem kind (narrow enough to separate root causes)."""
    prob = pr["problem"]
    kind = "tree-differs" if prob.startswith("syntax tree") else prob.split(":")[0]
    return f"{pr['class']}|{kind}"


def run(tier):
    common.build()
    out = common.Outcome("C10", tier)
    files = base_files(tier)
    lst = corpus.write_list(files, "c10_files.txt")
    n = common.NCPU
    with Pool(n) as pool:
        res = pool.map(_run, [(lst, i, n, True) for i in range(n)])
    evals = bases = skipped = 0
    classes = {}
    for problems, s in res:
        evals += s["evaluations"]
        bases += s["bases"]
        skipped += s["skipped"]
        for k, v in s["classes"].items():
            classes[k] = classes.get(k, 0) + v
        for pr in problems:
            out.fail(classify(pr), {"file": pr["file"], "edit": pr["edit"], "problem": pr["problem"], "edited": pr["edited"]})
    cov = {
        "evaluations": evals,
        "distinct_nontrivial": len(classes),
        "rule": "base programs = repository snapshot inputs, examples, fixtures (+ generated programs); edits: comment line at 5 indentations / empty / blanks-only / "
        "tab-only line at every line boundary, trailing comment / spaces / tab on every line, line break after every token inside brackets at 3 continuation indents, "
        "drop/double final newline, CRLF, re-indent to 2/3/8 spaces and tabs, and every (global transform x local edit) pair; positions never inside string-like tokens; "
        "distinct = (edit kind x bracket/block context x global transform) classes exercised",
        "samples": [{"file": files[0], "edit": "comment-line@3 indent=4"}, {"file": files[len(files) // 2], "edit": "crlf + blank-line@7 w=6"}, {"file": files[-1], "edit": "reindent-tabs + break-in-brackets@212 indent=1"}],
        "exhaustive": True,
        "base_programs": bases,
        "base_programs_skipped_do_not_parse": skipped,
        "edit_classes": classes,
    }
    return out.finish(
        cov,
        assumptions=[
            "text inside string / docstring / f-string / bytes tokens is data, not layout (no edits there; CRLF only for programs without multi-line string tokens)",
            "base programs are on a 4-space indentation grid (others are skipped for re-indentation)",
            "comment lines are meaning-preserving at any indentation, including inside brackets",
        ],
    )


def replay(path):
    common.build()
    rec = json.load(open(path, encoding="utf-8"))
    c = rec["case"]
    base = open(c["file"], encoding="utf-8").read()
    reqs = [{"id": "base", "op": "ast", "src": base}, {"id": "edited", "op": "ast", "src": c["edited"]}]
    p = subprocess.run([common.IVH, "serve"], input="\n".join(json.dumps(r) for r in reqs) + "\n", capture_output=True, text=True, encoding="utf-8")
    rs = [json.loads(l) for l in p.stdout.splitlines()]
    a, b = rs[0], rs[1]
    same = a.get("parses") and b.get("parses") and a["ast"] == b["ast"]
    print("edit:", c["edit"], "| base parses:", a.get("parses"), "| edited parses:", b.get("parses"), b.get("why"), "| same tree:", same)
    return 0 if same else 1
