"""C08 – formatting never changes what a program means.

All syntactic programs within the deviation bound (atom x context, see pspace/gen.py) and the repository's own sources go
through the real `format_source`; the output must lex and parse and its span-erased AST must equal the original's,
modulo the stated spelling normalisations.
"""
import json
import subprocess

from . import common, fmtspace


def run(tier, pid="C08", classify=fmtspace.classify_c08, extra=None):
    common.build()
    out = common.Outcome(pid, tier)
    cases, results = fmtspace.collect(tier)
    fails, kinds = fmtspace.attribute(cases, results, classify)
    by_key = {}
    for key, lvl, case in sorted(fails, key=lambda f: (f[1], len(f[2]["src"]))):
        by_key.setdefault(key, []).append(case)
    for key, cs in by_key.items():
        for case in cs[:2]:
            out.fail(key, case)
        if key in out.known_seen:
            out.known_seen[key][0] = len(cs)
    in_domain = [c for c, r in zip(cases, results) if r.get("parses")]
    sigs_ok = {c.sig for c, r, k in zip(cases, results, kinds) if r.get("parses") and not k}
    not_parsing = sorted({c.sig[0] for c, r in zip(cases, results) if len(c.sig) == 1 and not r.get("parses") and not r.get("crashed")})
    cov = {
        "evaluations": len(cases),
        "distinct_nontrivial": len(sigs_ok),
        "rule": "every syntactic atom (declaration / statement / expression / pattern / type form or optional AST field) alone (1 deviation), in every "
        "statement / function / expression / declaration context (2), and nested two contexts deep (3, thorough), plus the repository's snapshot inputs, examples and "
        "fixtures; a case is in the domain if the real parser accepts it; distinct_nontrivial = distinct feature signatures that parse and satisfy the oracle",
        "samples": [
            {"sig": list(c.sig), "src": c.src} for c in common.pick_samples([c for c in in_domain if len(c.sig) > 1] or in_domain)
        ],
        "exhaustive": True,
        "in_domain": len(in_domain),
        "level": 3 if tier == "thorough" else 2,
        "atoms_outside_domain_do_not_parse": not_parsing,
        "failing_cases_by_class": {k: len(v) for k, v in by_key.items()},
    }
    if extra:
        cov.update(extra(out, cases, results))
    return out.finish(
        cov,
        assumptions=[
            "AST equality is equality of the derived Debug rendering with spans erased by a quote-aware scanner",
            "normalisations: `(A, B)` and `Tuple[A, B]` tuple types, `()` and `None` unit type (spelling only); the parser itself canonicalises True/true, import a.b / a::b, "
            "`case P:` / `P =>` arms and quote style",
            "programs beyond the deviation bound are not covered",
        ],
    )


def replay(path, classify=fmtspace.classify_c08):
    common.build()
    rec = json.load(open(path, encoding="utf-8"))
    src = rec["case"]["src"]
    p = subprocess.run([common.IVH, "serve"], input=json.dumps({"id": 0, "op": "fmt", "src": src}) + "\n", capture_output=True, text=True, encoding="utf-8")
    r = json.loads(p.stdout)
    k = classify(r)
    print("source:\n" + src)
    print("formatted:\n" + str(r.get("out")))
    print("verdict:", k or "ok", r.get("why") or "")
    return 1 if k else 0
