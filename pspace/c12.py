"""C12 – compilation is deterministic.

programs x configurations. For every program the real CLI is run under every configuration (hash seed owned through an
LD_PRELOAD getrandom shim, working directory, environment) and all observable outputs must be byte-identical: the generated
Cargo.toml and src/**/*.rs (`incan build` with a no-op cargo first on PATH), the text of `--check`, `--emit-rust`,
`fmt --diff`. A witness (`ivh hashorder` under the same shim) measures that the enumerated seeds really produce different
HashMap iteration orders.
"""
import hashlib
import json
import os
import shutil
import subprocess
from multiprocessing.pool import ThreadPool

from . import common, sem

SHIM_SRC = os.path.join(common.VERIF, "shim", "getrandom.c")
SHIM = os.path.join(common.BUILD, "libverifrand.so")
FAKE = os.path.join(common.VERIF, "shim", "fake-cargo")


def build_shim():
    os.makedirs(common.BUILD, exist_ok=True)
    if not os.path.exists(SHIM) or os.path.getmtime(SHIM) < os.path.getmtime(SHIM_SRC):
        p = subprocess.run(["gcc", "-shared", "-fPIC", "-O2", "-o", SHIM, SHIM_SRC, "-ldl"], capture_output=True, text=True)
        if p.returncode != 0:
            raise common.MachineryError("cannot build getrandom shim: " + p.stderr[-400:])


def programs(tier):
    P = {}
    P["three_rust_crates"] = {"main.incn": "import rust::serde_json\nimport rust::regex\nimport rust::chrono\nfrom rust::rand import Rng\nfrom rust::uuid import Uuid\n\n\ndef main() -> None:\n    println(\"x\")\n"}
    P["derives_traits_models"] = {
        "main.incn": "@derive(Debug, Clone, Eq, Hash, Ord, Serialize, Deserialize)\nmodel A:\n    x: int\n    y: str\n\n\n@derive(Debug, Clone)\nmodel B:\n    a: A\n    n: int = 1\n\n\n"
        "trait T1:\n    def m1(self) -> int: ...\n\n\ntrait T2:\n    def m2(self) -> int: ...\n\n\ntrait T3:\n    def m3(self) -> int:\n        return 3\n\n\n"
        "class C with T1, T2, T3:\n    v: int\n\n    def m1(self) -> int:\n        return 1\n\n    def m2(self) -> int:\n        return 2\n\n\nenum E:\n    P\n    Q(int)\n    R(int, str)\n\n\n"
        "def main() -> None:\n    c = C(v=1)\n    println(c.m1() + c.m2() + c.m3())\n    println(json_stringify(A(x=1, y=\"s\")))\n"
    }
    P["diag_two_missing_fields"] = {"main.incn": "model P:\n    x: int\n    y: int\n    z: int\n\n\ndef main() -> None:\n    p = P()\n    q = P(w=1)\n    println(nope1 + nope2)\n"}
    P["diag_trait_missing_methods"] = {
        "main.incn": "trait T1:\n    def a(self) -> int: ...\n    def b(self) -> int: ...\n    def c(self) -> int: ...\n\n\n@requires(f1: int, f2: str, f3: bool)\ntrait T2:\n    def d(self) -> int:\n        return self.f1\n\n\nclass K with T1, T2:\n    v: int\n\n\ndef main() -> None:\n    pass\n"
    }
    P["nested_three_levels"] = {
        "main.incn": "from pkg.alpha.one import f1\nfrom pkg.alpha.two import f2\nfrom pkg.beta.three import f3\nfrom pkg.beta.four import f4\nfrom util import helper\n\n\ndef main() -> None:\n    println(f1() + f2() + f3() + f4() + helper())\n",
        "pkg/alpha/one.incn": "pub def f1() -> int:\n    return 1\n",
        "pkg/alpha/two.incn": "pub def f2() -> int:\n    return 2\n",
        "pkg/beta/three.incn": "pub def f3() -> int:\n    return 3\n",
        "pkg/beta/four.incn": "pub def f4() -> int:\n    return 4\n",
        "util.incn": "pub def helper() -> int:\n    return 5\n",
    }
    P["private_import_hint"] = {
        "main.incn": "from lib import hidden\n\n\ndef main() -> None:\n    println(hidden())\n",
        "lib.incn": "def hidden() -> int:\n    return 1\n\n\npub def shown_a() -> int:\n    return 2\n\n\npub def shown_b() -> int:\n    return 3\n\n\npub def shown_c() -> int:\n    return 4\n",
    }
    P["unformatted_source"] = {"main.incn": "def   main( ) -> None :\n    x=1+2\n    xs = [ 1,2 ,3 ]\n    d = { \"a\":1 , \"b\" :2, \"c\":3 }\n    println( x )\n"}
    P["collections_and_consts"] = {
        "main.incn": "const A: int = 1\nconst B: int = A + 1\nconst S: str = \"a\" + \"b\"\nconst L: List[int] = [1, 2, 3]\n\n\ndef main() -> None:\n    d = {\"a\": 1, \"b\": 2}\n    s = {1, 2, 3}\n    xs = [x for x in range(3)]\n    println(len(d) + len(s) + len(xs) + B)\n"
    }
    # many entries of every kind: an iteration-order dependency anywhere in the compiler needs more than a handful of keys to show
    n = 60
    chain = 'const SEG_000: str = "root"\n' + "".join(f'const SEG_{i:03}: str = SEG_{i - 1:03} + "/d{i}"\n' for i in range(1, n))
    chain += "const NUM_000: int = 1\n" + "".join(f"const NUM_{i:03}: int = NUM_{i - 1:03} + {i}\n" for i in range(1, n))
    chain += "".join(f'const USE_{i:03}: str = SEG_{i:03} + "!"\n' for i in range(5, n, 6))
    uses = "".join(f'    println(SEG_{i:03} + "?")\n    println(NUM_{i:03})\n' for i in range(3, n, 7))
    P["const_chains_60"] = {"main.incn": chain + "\n\ndef main() -> None:\n" + uses}
    decls = ""
    for i in range(30):
        decls += f"trait Tr{i:02}:\n    def m{i:02}(self) -> int: ...\n\n\n"
        decls += f"@derive(Debug, Eq, Serialize)\nmodel Mo{i:02}:\n    a{i:02}: int\n    b{i:02}: str = \"d{i}\"\n\n\n"
        decls += f"enum En{i:02}:\n    A{i:02}\n    B{i:02}(int)\n\n\n"
        decls += f"class Cl{i:02} with Tr{i:02}, Tr{(i + 1) % 30:02}:\n    v: int\n\n    def m{i:02}(self) -> int:\n        return {i}\n\n    def m{(i + 1) % 30:02}(self) -> int:\n        return {i + 1}\n\n\n"
        decls += f"type Nt{i:02} = newtype int\n\n\n"
        decls += f"def fn{i:02}(x: int = {i}) -> int:\n    return x + {i}\n\n\n"
    body = "".join(f"    println(fn{i:02}() + Cl{i:02}(v={i}).m{i:02}() + Mo{i:02}(a{i:02}={i}).a{i:02})\n" for i in range(0, 30, 3))
    P["many_declarations_30"] = {"main.incn": decls + "def main() -> None:\n" + body}
    # a type imported from a Rust crate (unknown to the compiler) constructed with several named arguments, in the entry file
    # and in a dependency module
    P["rust_type_named_construction"] = {
        "main.incn": "from rust::chrono import NaiveDate\nfrom datelib import make\n\n\ndef main() -> None:\n    d = NaiveDate(year=2024, month=1, day=2, hour=3, minute=4, second=5)\n    e = make(7)\n    println(1)\n",
        "datelib.incn": "from rust::chrono import NaiveDate\n\n\npub def make(n: int) -> NaiveDate:\n    return NaiveDate(second=n, minute=n, hour=n, day=n, month=n, year=n)\n",
    }
    # a dependency module that constructs models / classes it imports from another dependency module (named arguments in
    # several orders, defaults omitted, enum variants): the text of every generated module file must be stable
    P["dependency_constructs_imported_types"] = {
        "main.incn": "from geometry import origin_shift, square, total, kind_of, corners\nfrom shapes import Kind\n\n\ndef main() -> None:\n    println(total(square(3), origin_shift(1)))\n    println(len(corners(2)))\n    match kind_of(square(2)):\n        case Kind.Flat:\n            println(\"flat\")\n        case Kind.Tall(h):\n            println(h)\n",
        "geometry.incn": "from shapes import Point, Rect, Kind\n\n\npub def origin_shift(d: int) -> Point:\n    return Point(y=d + 1, x=d, w=d * 2, v=0)\n\n\npub def corners(n: int) -> List[Point]:\n    return [Point(x=0, y=0, v=1, w=n), Point(w=n, v=2, y=n, x=0), Point(v=3, w=0, x=n, y=n, z=n)]\n\n\npub def square(n: int) -> Rect:\n    return Rect(h=n, w=n, tag=\"sq\", depth=n)\n\n\npub def kind_of(r: Rect) -> Kind:\n    if r.h > r.w:\n        return Kind.Tall(r.h)\n    return Kind.Flat\n\n\npub def total(r: Rect, p: Point) -> int:\n    return r.area() + p.x + p.y + p.z\n",
        "shapes.incn": "pub model Point:\n    x: int\n    y: int\n    v: int\n    w: int\n    z: int = 9\n\n\npub enum Kind:\n    Flat\n    Tall(int)\n\n\npub class Rect:\n    w: int\n    h: int\n    depth: int\n    tag: str\n    label: str = \"r\"\n\n    def area(self) -> int:\n        return self.w * self.h\n",
    }
    for name in ("multifile", "nested_project"):
        root = os.path.join(common.REPO, "examples", "advanced", name)
        files = {}
        for r, _, fs in os.walk(root):
            for f in fs:
                if f.endswith(".incn"):
                    p = os.path.join(r, f)
                    files[os.path.relpath(p, root)] = open(p, encoding="utf-8").read()
        entry = "src/main.incn" if "src/main.incn" in files else "main.incn"
        if entry in files:
            P[f"example_{name}"] = dict(files, __entry__=entry)
    # every project-generation case of C15 (feature-trigger subsets, rust:: import sets and forms)
    from . import c15

    for k, case in enumerate(c15.cases(tier)):
        if case.get("expect_refused") or case["name"] != "prog":
            continue
        P[f"c15_{k}_" + "+".join(case["triggers"])[:40] + "_" + "+".join(c for c, _ in case["imports"])[:30]] = {"main.incn": c15.source(case), "__light__": "1"}
    units = [u for u in sem.corpus("quick") if not u.panics and u.tags[:1] != ("seq",)][:60]
    inc, _ = sem.pack(units)
    P["semantic_corpus_pack"] = {"main.incn": inc}
    return P


def configs(tier):
    seeds = range(64) if tier == "thorough" else range(16)
    out = []
    for s in seeds:
        for cwd_mode in ("project-relative", "root-absolute"):
            for env_mode in ("scrubbed", "noisy"):
                if tier != "thorough" and s >= 4 and (cwd_mode, env_mode) != ("project-relative", "scrubbed") and s % 4 != 0:
                    continue
                out.append((s, cwd_mode, env_mode))
    return out


def run_cfg(args):
    pname, files, cfg, root = args
    seed, cwd_mode, env_mode = cfg
    entry = files.get("__entry__", "main.incn")
    light = "__light__" in files
    proj = os.path.join(root, pname)
    env = {"PATH": FAKE + ":" + os.environ.get("PATH", ""), "HOME": os.environ.get("HOME", "/root"), "LD_PRELOAD": SHIM, "VERIF_HASH_SEED": str(seed), "LANG": "C.UTF-8", "RUST_LOG": "off"}
    for k in ("CARGO_HOME", "RUSTUP_HOME"):
        if k in os.environ:
            env[k] = os.environ[k]
    if env_mode == "noisy":
        env.update({"LANG": "tr_TR.UTF-8", "LC_ALL": "C", "TZ": "Pacific/Kiritimati", "TERM": "dumb", "COLUMNS": "40", "TMPDIR": "/var/tmp", "RUST_BACKTRACE": "1", "USER": "someone", "HOME": "/nonexistent-home"})
    outdir = os.path.join(root, "_out", f"{pname}-{seed}-{cwd_mode}-{env_mode}")
    shutil.rmtree(outdir, ignore_errors=True)
    if cwd_mode == "project-relative":
        cwd, path = proj, entry
    else:
        cwd, path = "/", os.path.join(proj, entry)
    obs = {}

    def cli(*a):
        p = subprocess.run([common.INCAN, "--no-banner", "--color", "never"] + list(a), cwd=cwd, env=env, capture_output=True, text=True, timeout=120)
        # the path the CLI was given (relative or absolute) is an input: normalise both spellings of it
        def norm(t):
            t = t.replace(outdir, "<out>").replace(os.path.join(proj, ""), "").replace(proj, ".")
            return t
        return f"exit={p.returncode}\n--stdout--\n{norm(p.stdout)}\n--stderr--\n{norm(p.stderr)}"

    obs["build"] = cli("build", path, outdir)
    if os.path.isdir(outdir):
        for r, _, fs in os.walk(outdir):
            for f in sorted(fs):
                fp = os.path.join(r, f)
                if f.endswith((".rs", ".toml")):
                    obs["file:" + os.path.relpath(fp, outdir)] = open(fp, encoding="utf-8").read()
    if not light:
        obs["check"] = cli("--check", path)
        obs["emit-rust"] = cli("--emit-rust", path)
        obs["fmt-diff"] = cli("fmt", "--diff", path)
    shutil.rmtree(outdir, ignore_errors=True)
    return pname, cfg, obs


def run(tier):
    common.build(need_cli=True)
    build_shim()
    out = common.Outcome("C12", tier)
    root = os.path.join(common.BUILD, "c12")
    shutil.rmtree(root, ignore_errors=True)
    P = programs(tier)
    for pname, files in P.items():
        for rel, text in files.items():
            if rel in ("__entry__", "__light__"):
                continue
            p = os.path.join(root, pname, rel)
            os.makedirs(os.path.dirname(p), exist_ok=True)
            open(p, "w", encoding="utf-8").write(text)
    cfgs = configs(tier)
    # the light (project-generation-only) programs run under 4 seeds (thorough: 16), the others under every configuration
    light_cfgs = [c for c in cfgs if c[1:] == ("project-relative", "scrubbed")][: (16 if tier == "thorough" else 4)]
    jobs = [(pname, files, cfg, root) for pname, files in P.items() for cfg in (light_cfgs if "__light__" in files else cfgs)]
    with ThreadPool(common.NCPU) as pool:
        res = pool.map(run_cfg, jobs)
    by_prog = {}
    for pname, cfg, obs in res:
        by_prog.setdefault(pname, []).append((cfg, obs))
    n_eval = 0
    distinct = 0
    for pname, runs in by_prog.items():
        ref_cfg, ref = runs[0]
        keys = set()
        for cfg, obs in runs:
            keys |= set(obs)
        for k in sorted(keys):
            variants = {}
            for cfg, obs in runs:
                n_eval += 1
                variants.setdefault(obs.get(k, "<absent>"), []).append(cfg)
            if len(variants) > 1:
                vs = sorted(variants.items(), key=lambda kv: -len(kv[1]))
                a, b = vs[0], vs[1]
                kind = "generated-file" if k.startswith("file:") else k
                what = k if k.startswith("file:") else k
                out.fail(
                    f"prog:{pname}|{what}",
                    {"program": pname, "files": {r: t for r, t in P[pname].items()}, "observable": k, "distinct_outputs": len(variants), "config_a": list(a[1][0]), "config_b": list(b[1][0]), "output_a": a[0][-1500:], "output_b": b[0][-1500:], "kind": kind},
                )
            else:
                distinct += 1
    # witness: how many iteration orders do the enumerated seeds produce?
    orders2, orders3 = set(), set()
    for s in sorted({c[0] for c in cfgs}):
        p = subprocess.run([common.IVH, "hashorder"], env={"LD_PRELOAD": SHIM, "VERIF_HASH_SEED": str(s), "PATH": os.environ.get("PATH", "")}, capture_output=True, text=True)
        a, b = p.stdout.strip().split("] [")
        orders2.add(a)
        orders3.add(b)
    if len(orders3) < 3:
        raise common.MachineryError(f"hash seeds do not vary HashMap iteration order (witness saw {len(orders3)} orders) – the shim is not effective")
    shutil.rmtree(root, ignore_errors=True)
    cov = {
        "evaluations": n_eval,
        "distinct_nontrivial": distinct,
        "rule": f"{len(P)} programs ({sum(1 for f in P.values() if '__light__' in f)} of them the C15 project-generation cases, compared on the generated files under 4 (thorough 16) hash seeds; the others: several rust:: imports, derives/traits/models, diagnostics with several missing fields / methods, 3-level nested multi-file project, private "
        f"import hint, unformatted source, consts and collections, a dependency module constructing types imported from another dependency module, a Rust-imported type constructed with six named arguments, two scaling programs (60-link str and int const chains with uses at every depth; 30 each of traits, derived models, enums, classes with two traits, newtypes, functions with defaults), the repository's multifile examples, a 60-unit pack of the semantic corpus) x {len(cfgs)} configurations "
        "(hash seed x cwd/relative-vs-absolute path x scrubbed/noisy environment); observables: build transcript, every generated .rs/.toml file, --check, --emit-rust, fmt --diff "
        "text; evaluations = (program, configuration, observable) triples compared; non-trivial = (program, observable) pairs identical across all configurations",
        "samples": [{"program": "three_rust_crates", "config": list(cfgs[0])}, {"program": "nested_three_levels", "config": list(cfgs[len(cfgs) // 2])}, {"program": "semantic_corpus_pack", "config": list(cfgs[-1])}],
        "exhaustive": True,
        "programs": len(P),
        "configurations": len(cfgs),
        "hash_orders_witnessed_2_keys": len(orders2),
        "hash_orders_witnessed_3_keys": len(orders3),
    }
    return out.finish(
        cov,
        assumptions=[
            "std's RandomState is seeded through getrandom()/getentropy(), which the LD_PRELOAD shim makes a function of VERIF_HASH_SEED (the witness confirms that seeds change iteration order)",
            "seeds are a bounded, replayable enumeration of a 2^128 space; read_dir order and INCAN_* debug switches are not varied",
            "the path the CLI was given is normalised in transcripts (it is an input, not host state); tracing log lines (which carry timestamps) are switched off with RUST_LOG=off",
        ],
    )


def replay(path):
    common.build(need_cli=True)
    build_shim()
    rec = json.load(open(path, encoding="utf-8"))
    c = rec["case"]
    root = os.path.join(common.BUILD, "c12_replay")
    shutil.rmtree(root, ignore_errors=True)
    for rel, text in c["files"].items():
        if rel in ("__entry__", "__light__"):
            continue
        p = os.path.join(root, c["program"], rel)
        os.makedirs(os.path.dirname(p), exist_ok=True)
        open(p, "w", encoding="utf-8").write(text)
    a = run_cfg((c["program"], c["files"], tuple(c["config_a"]), root))[2].get(c["observable"])
    b = run_cfg((c["program"], c["files"], tuple(c["config_b"]), root))[2].get(c["observable"])
    print("observable:", c["observable"])
    print("config", c["config_a"], hashlib.sha1((a or "").encode()).hexdigest())
    print("config", c["config_b"], hashlib.sha1((b or "").encode()).hexdigest())
    shutil.rmtree(root, ignore_errors=True)
    return 0 if a == b else 1
