#!/usr/bin/env python3
"""dev helper: tools/p.py <op> < file  – run one serve op on stdin text"""
import sys, json, subprocess
op = sys.argv[1] if len(sys.argv) > 1 else "ast"
src = sys.stdin.read()
p = subprocess.run(["/verif/.build/target/release/ivh", "serve"], input=json.dumps({"id": 1, "op": op, "src": src}) + "\n", capture_output=True, text=True)
r = json.loads(p.stdout)
if op == "fmt":
    print("parses", r.get("parses"), "fmt", r.get("fmt"), "reparses", r.get("reparses"), "same", r.get("same_ast"), "idem", r.get("idempotent"), r.get("why"), r.get("surface"))
    print(r.get("out"))
else:
    print(json.dumps(r, indent=1, ensure_ascii=False)[:3000])
