//! C04 / C05: exhaustive evaluation of the real numeric / indexing / slicing / range kernels over a boundary lattice.
//!
//! This module only *observes*: every entry point is called under `catch_unwind` and the result (value or panic
//! message) is streamed as one tab-separated line per operand tuple. The oracle (CPython) lives in
//! `pspace/oracle_kernels.py`.
use crate::util::{Shard, catch};
use incan_core::strings as core_str;
use incan_stdlib::{collections, iter, num, strings as std_str};
use std::collections::HashMap;
use std::io::{BufWriter, Write};

// ---------------------------------------------------------------------------------------------------------------
// Encoding
// ---------------------------------------------------------------------------------------------------------------

fn enc_i(r: Result<i64, String>) -> String {
    match r {
        Ok(v) => v.to_string(),
        Err(m) => format!("P{m}"),
    }
}
fn enc_f(r: Result<f64, String>) -> String {
    match r {
        Ok(v) => format!("x{:016x}", v.to_bits()),
        Err(m) => format!("P{m}"),
    }
}
fn fx(v: f64) -> String {
    format!("x{:016x}", v.to_bits())
}
fn enc_s(r: Result<String, String>) -> String {
    match r {
        Ok(v) => format!("S{v}"),
        Err(m) => format!("P{m}"),
    }
}
fn opt(v: Option<i64>) -> String {
    match v {
        Some(x) => x.to_string(),
        None => "_".to_string(),
    }
}

// ---------------------------------------------------------------------------------------------------------------
// C04 lattices
// ---------------------------------------------------------------------------------------------------------------

pub fn int_lattice() -> Vec<i64> {
    let mut v: Vec<i64> = Vec::new();
    v.extend([i64::MIN, i64::MIN + 1, i64::MIN + 2, i64::MAX - 2, i64::MAX - 1, i64::MAX]);
    for e in [31u32, 32, 53, 62] {
        let p = 1i64 << e;
        for d in [-1i64, 0, 1] {
            v.push(p + d);
            v.push(-(p + d));
        }
    }
    for k in -64..=64 {
        v.push(k);
    }
    v.sort();
    v.dedup();
    v
}

pub fn float_lattice() -> Vec<f64> {
    let mut v: Vec<f64> = Vec::new();
    for k in -80..=80 {
        v.push(k as f64 / 8.0);
    }
    for e in [-1074i32, -1022, -60, -30, -10, 10, 30, 31, 32, 52, 53, 54, 62, 63, 64, 100, 1023] {
        let p = 2f64.powi(e);
        v.push(p);
        v.push(-p);
    }
    for x in [
        0.1, 0.2, 0.3, 1.0 / 3.0, 2.5e-3, 1e16, 9007199254740993.0, 1e100, 1e-100, 123456.789, f64::MIN_POSITIVE,
        5e-324, f64::MAX,
    ] {
        v.push(x);
        v.push(-x);
    }
    v.push(-0.0);
    // dedupe by bit pattern, keep both zeros
    let mut seen = std::collections::HashSet::new();
    v.retain(|x| seen.insert(x.to_bits()));
    v
}

fn line_ii(out: &mut impl Write, a: i64, b: i64) {
    let (cm, cf) = if b != 0 {
        (
            enc_i(catch(|| incan_core::py_mod_i64_impl(a, b))),
            enc_i(catch(|| incan_core::py_floor_div_i64_impl(a, b))),
        )
    } else {
        ("-".to_string(), "-".to_string())
    };
    let _ = writeln!(
        out,
        "ii\t{a}\t{b}\t{cm}\t{cf}\t{}\t{}\t{}\t{}\t{}",
        enc_i(catch(|| num::py_mod(a, b))),
        enc_i(catch(|| num::py_floor_div(a, b))),
        enc_f(catch(|| num::py_div(a, b))),
        enc_i(catch(|| num::py_mod_i64(a, b))),
        enc_i(catch(|| num::py_floor_div_i64(a, b))),
    );
}
fn line_if(out: &mut impl Write, a: i64, b: f64) {
    let _ = writeln!(
        out,
        "if\t{a}\t{}\t{}\t{}\t{}",
        fx(b),
        enc_f(catch(|| num::py_mod(a, b))),
        enc_f(catch(|| num::py_floor_div(a, b))),
        enc_f(catch(|| num::py_div(a, b))),
    );
}
fn line_fi(out: &mut impl Write, a: f64, b: i64) {
    let _ = writeln!(
        out,
        "fi\t{}\t{b}\t{}\t{}\t{}",
        fx(a),
        enc_f(catch(|| num::py_mod(a, b))),
        enc_f(catch(|| num::py_floor_div(a, b))),
        enc_f(catch(|| num::py_div(a, b))),
    );
}
fn line_ff(out: &mut impl Write, a: f64, b: f64) {
    let cm = if b != 0.0 {
        enc_f(catch(|| incan_core::py_mod_f64_impl(a, b)))
    } else {
        "-".to_string()
    };
    let _ = writeln!(
        out,
        "ff\t{}\t{}\t{cm}\t{}\t{}\t{}\t{}\t{}",
        fx(a),
        fx(b),
        enc_f(catch(|| num::py_mod(a, b))),
        enc_f(catch(|| num::py_floor_div(a, b))),
        enc_f(catch(|| num::py_div(a, b))),
        enc_f(catch(|| num::py_mod_f64(a, b))),
        enc_f(catch(|| num::py_floor_div_f64(a, b))),
    );
}

/// `ivh num --tier quick|thorough [--shard i/n]`
pub fn run_num(args: &[String]) {
    let thorough = crate::util::arg(args, "--tier").as_deref() == Some("thorough");
    let shard = Shard::from_args(args);
    let stdout = std::io::stdout();
    let mut out = BufWriter::with_capacity(1 << 20, stdout.lock());
    let il = int_lattice();
    let fl = float_lattice();
    let dense: i64 = if thorough { 1024 } else { 0 };
    let _ = writeln!(out, "#lattice\tI={}\tF={}\tdense={}", il.len(), fl.len(), dense);
    let mut k: u64 = 0;
    let mut n: u64 = 0;
    for &a in &il {
        for &b in &il {
            k += 1;
            if shard.mine(k) {
                line_ii(&mut out, a, b);
                n += 1;
            }
        }
    }
    if dense > 0 {
        for a in -dense..=dense {
            for b in -dense..=dense {
                if (-64..=64).contains(&a) && (-64..=64).contains(&b) {
                    continue; // already in the lattice square
                }
                k += 1;
                if shard.mine(k) {
                    line_ii(&mut out, a, b);
                    n += 1;
                }
            }
        }
    }
    for &a in &il {
        for &b in &fl {
            k += 1;
            if shard.mine(k) {
                line_if(&mut out, a, b);
                line_fi(&mut out, b, a);
                n += 2;
            }
        }
    }
    for &a in &fl {
        for &b in &fl {
            k += 1;
            if shard.mine(k) {
                line_ff(&mut out, a, b);
                n += 1;
            }
        }
    }
    let _ = writeln!(out, "#count\t{n}");
}

/// `ivh num-one <kind> <a> <b>` – replay of a single operand pair.
pub fn run_num_one(args: &[String]) {
    let stdout = std::io::stdout();
    let mut out = stdout.lock();
    let kind = args[0].as_str();
    let pi = |s: &str| -> i64 { s.parse().expect("int") };
    let pf = |s: &str| -> f64 { f64::from_bits(u64::from_str_radix(s.trim_start_matches('x'), 16).expect("hex")) };
    match kind {
        "ii" => line_ii(&mut out, pi(&args[1]), pi(&args[2])),
        "if" => line_if(&mut out, pi(&args[1]), pf(&args[2])),
        "fi" => line_fi(&mut out, pf(&args[1]), pi(&args[2])),
        "ff" => line_ff(&mut out, pf(&args[1]), pf(&args[2])),
        _ => panic!("kind"),
    }
}

// ---------------------------------------------------------------------------------------------------------------
// C05
// ---------------------------------------------------------------------------------------------------------------

pub fn idx_lattice() -> Vec<Option<i64>> {
    let mut v: Vec<Option<i64>> = vec![None];
    let mut xs: Vec<i64> = (-6..=6).collect();
    xs.extend([
        i64::MIN,
        i64::MIN + 1,
        -(1i64 << 32),
        -(1i64 << 31),
        1i64 << 31,
        1i64 << 32,
        i64::MAX - 1,
        i64::MAX,
    ]);
    xs.sort();
    v.extend(xs.into_iter().map(Some));
    v
}

fn seqs(max_len: usize) -> Vec<String> {
    let alpha = ['a', 'é', '𝄞'];
    let mut out = vec![String::new()];
    let mut frontier = vec![String::new()];
    for _ in 0..max_len {
        let mut next = Vec::new();
        for s in &frontier {
            for c in alpha {
                let mut t = s.clone();
                t.push(c);
                next.push(t);
            }
        }
        out.extend(next.iter().cloned());
        frontier = next;
    }
    out
}

fn enc_list(r: Result<Vec<i64>, String>) -> String {
    match r {
        Ok(v) => format!("L{}", v.iter().map(|x| x.to_string()).collect::<Vec<_>>().join(",")),
        Err(m) => format!("P{m}"),
    }
}

fn line_sidx(out: &mut impl Write, s: &str, i: i64) {
    let core = match core_str::str_char_at(s, i) {
        Ok(c) => format!("S{c}"),
        Err(e) => format!("E{e}"),
    };
    let _ = writeln!(out, "sidx\t{s}\t{i}\t{core}\t{}", enc_s(catch(|| std_str::str_index(s, i))));
}
fn line_sslice(out: &mut impl Write, s: &str, a: Option<i64>, b: Option<i64>, c: Option<i64>) {
    let core = match catch(|| core_str::str_slice(s, a, b, c)) {
        Ok(Ok(v)) => format!("S{v}"),
        Ok(Err(e)) => format!("E{e}"),
        Err(m) => format!("P{m}"),
    };
    let _ = writeln!(
        out,
        "sslice\t{s}\t{}\t{}\t{}\t{core}\t{}",
        opt(a),
        opt(b),
        opt(c),
        enc_s(catch(|| std_str::str_slice(s, a, b, c)))
    );
}
fn line_lidx(out: &mut impl Write, n: usize, i: i64) {
    let list: Vec<i64> = (0..n as i64).collect();
    let g = catch(|| *collections::list_get(&list, i));
    let gm = catch(|| {
        let mut l2 = list.clone();
        *collections::list_get_mut(&mut l2, i)
    });
    let _ = writeln!(out, "lidx\t{n}\t{i}\t{}\t{}", enc_i(g), enc_i(gm));
}
fn line_lslice(out: &mut impl Write, n: usize, a: Option<i64>, b: Option<i64>, c: Option<i64>) {
    let list: Vec<i64> = (0..n as i64).collect();
    let _ = writeln!(
        out,
        "lslice\t{n}\t{}\t{}\t{}\t{}",
        opt(a),
        opt(b),
        opt(c),
        enc_list(catch(|| collections::list_slice(&list, a, b, c)))
    );
}
pub const RANGE_HORIZON: usize = 20;
fn line_range(out: &mut impl Write, a: i64, b: i64, c: i64) {
    let r = catch(|| iter::range(a, b, c).take(RANGE_HORIZON).collect::<Vec<i64>>());
    let _ = writeln!(out, "range\t{a}\t{b}\t{c}\t{}", enc_list(r));
}
fn line_dict(out: &mut impl Write, keys: &[&str], probe: &str) {
    let mut m: HashMap<String, i64> = HashMap::new();
    for (i, k) in keys.iter().enumerate() {
        m.insert((*k).to_string(), i as i64);
    }
    let p = probe.to_string();
    let r = catch(|| *collections::dict_get(&m, &p));
    let mut mi: HashMap<i64, i64> = HashMap::new();
    for (i, k) in keys.iter().enumerate() {
        mi.insert(k.len() as i64, i as i64);
    }
    let pk = probe.len() as i64;
    let ri = catch(|| *collections::dict_get(&mi, &pk));
    let _ = writeln!(out, "dict\t{}\t{probe}\t{}\t{}", keys.join(","), enc_i(r), enc_i(ri));
}

/// `ivh seq --tier quick|thorough [--shard i/n]`
pub fn run_seq(args: &[String]) {
    let thorough = crate::util::arg(args, "--tier").as_deref() == Some("thorough");
    let shard = Shard::from_args(args);
    let stdout = std::io::stdout();
    let mut out = BufWriter::with_capacity(1 << 20, stdout.lock());
    let j = idx_lattice();
    let ji: Vec<i64> = j.iter().flatten().copied().collect();
    let max_len = if thorough { 4 } else { 3 };
    let ss = seqs(max_len);
    let _ = writeln!(out, "#lattice\tJ={}\tseqs={}\tmaxlen={}", j.len(), ss.len(), max_len);
    crate::util::start_watchdog(20);
    let mut k: u64 = 0;
    let mut n: u64 = 0;
    for s in &ss {
        for &i in &ji {
            k += 1;
            if shard.mine(k) {
                line_sidx(&mut out, s, i);
                n += 1;
            }
        }
        for &a in &j {
            for &b in &j {
                for &c in &j {
                    k += 1;
                    if shard.mine(k) {
                        crate::util::in_flight(|| format!("sslice\t{s}\t{}\t{}\t{}", opt(a), opt(b), opt(c)));
                        line_sslice(&mut out, s, a, b, c);
                        n += 1;
                    }
                }
            }
        }
    }
    for len in 0..=(max_len + 1) {
        for &i in &ji {
            k += 1;
            if shard.mine(k) {
                line_lidx(&mut out, len, i);
                n += 1;
            }
        }
        for &a in &j {
            for &b in &j {
                for &c in &j {
                    k += 1;
                    if shard.mine(k) {
                        crate::util::in_flight(|| format!("lslice\t{len}\t{}\t{}\t{}", opt(a), opt(b), opt(c)));
                        line_lslice(&mut out, len, a, b, c);
                        n += 1;
                    }
                }
            }
        }
    }
    for &a in &ji {
        for &b in &ji {
            for &c in &ji {
                k += 1;
                if shard.mine(k) {
                    crate::util::in_flight(|| format!("range\t{a}\t{b}\t{c}"));
                    line_range(&mut out, a, b, c);
                    n += 1;
                }
            }
        }
    }
    let keysets: [&[&str]; 4] = [&[], &["a"], &["a", "bb"], &["a", "bb", "ééé"]];
    for ks in keysets {
        for probe in ["", "a", "bb", "ééé", "zzzz", "it's"] {
            k += 1;
            if shard.mine(k) {
                line_dict(&mut out, ks, probe);
                n += 1;
            }
        }
    }
    let _ = writeln!(out, "#count\t{n}");
}

/// `ivh seq-one <kind> args...` – replay of a single tuple.
pub fn run_seq_one(args: &[String]) {
    let stdout = std::io::stdout();
    let mut out = stdout.lock();
    let po = |s: &str| -> Option<i64> { if s == "_" { None } else { Some(s.parse().expect("int")) } };
    match args[0].as_str() {
        "sidx" => line_sidx(&mut out, &args[1], args[2].parse().expect("int")),
        "sslice" => line_sslice(&mut out, &args[1], po(&args[2]), po(&args[3]), po(&args[4])),
        "lidx" => line_lidx(&mut out, args[1].parse().expect("n"), args[2].parse().expect("int")),
        "lslice" => line_lslice(&mut out, args[1].parse().expect("n"), po(&args[2]), po(&args[3]), po(&args[4])),
        "range" => line_range(
            &mut out,
            args[1].parse().expect("a"),
            args[2].parse().expect("b"),
            args[3].parse().expect("c"),
        ),
        "dict" => {
            let ks: Vec<&str> = if args[1].is_empty() { vec![] } else { args[1].split(',').collect() };
            line_dict(&mut out, &ks, &args[2])
        }
        _ => panic!("kind"),
    }
}
