"""Shared engine of C08/C09: push every enumerated syntactic program through the real formatter (ivh `fmt` op)."""
import glob

from . import common, corpus, gen, serve


import re

_DOC = re.compile(r'Docstring\("((?:[^"\\]|\\.)*)"\)')


def _strip_doc(m):
    body = m.group(1)
    # outer whitespace of a module docstring is layout (the formatter documents that it trims it)
    while True:
        b = body
        for pre in ("\\n", " ", "\\t"):
            if body.startswith(pre):
                body = body[len(pre):]
            if body.endswith(pre) and not body.endswith("\\" + pre):
                body = body[: -len(pre)]
        if b == body:
            break
    return 'Docstring("' + body + '")'


def norm_sig(s):
    """Documented / spelling-only normalisations applied to span-erased AST renderings before comparison."""
    if s is None:
        return None
    s = _DOC.sub(_strip_doc, s)
    return s.replace('Generic("Tuple", [', "Tuple([").replace("node: Unit,", 'node: Simple("None"),')


def ladders(tier):
    """Nesting ladders: every block kind (and a rotating mix, also inside a class method) nested 1..D deep, and expression
    nests; the enumeration above never nests deeper than 3."""
    D = 40 if tier == "thorough" else 14
    heads = {
        "if": "if a:",
        "else": "if a:\n{I}    pass\n{I}else:",
        "elif": "if a:\n{I}    pass\n{I}elif b:",
        "for": "for i in xs:",
        "while": "while a:",
        "match": "match a:\n{I}    case 1:",
    }
    out = []

    def block(kinds, d, base_indent):
        lines = []
        ind = base_indent
        for k in range(d):
            h = heads[kinds[k % len(kinds)]]
            extra = 2 if kinds[k % len(kinds)] == "match" else 1
            hl = h.replace("{I}", "    " * ind).split("\n")
            lines.append("    " * ind + hl[0])
            lines += hl[1:]
            ind += extra
        lines.append("    " * ind + "x = 1")
        return "\n".join(lines) + "\n"

    for d in range(1, D + 1):
        for name in heads:
            out.append(gen.Case((f"ladder:{name}", f"depth:{d}"), "def f() -> None:\n" + block([name], d, 1), 2))
        mix = ["for", "if", "while", "match", "else", "elif"]
        out.append(gen.Case(("ladder:mixed", f"depth:{d}"), "def f() -> None:\n" + block(mix, d, 1), 2))
        out.append(gen.Case(("ladder:mixed_in_method", f"depth:{d}"), "class C:\n    v: int\n\n    def m(mut self) -> None:\n" + block(mix, d, 2), 2))
        w = lambda e: f"def f() -> None:\n    x = {e}\n"
        out.append(gen.Case(("ladder:parens", f"depth:{d}"), w("(" * d + "1" + ")" * d), 2))
        out.append(gen.Case(("ladder:list", f"depth:{d}"), w("[" * d + "1" + "]" * d), 2))
        out.append(gen.Case(("ladder:call", f"depth:{d}"), w("g(" * d + "1" + ")" * d), 2))
        out.append(gen.Case(("ladder:binary_left", f"depth:{d}"), w("1" + " - 1" * d), 2))
        out.append(gen.Case(("ladder:binary_right_parens", f"depth:{d}"), w("1 - (" * d + "1" + ")" * d), 2))
        out.append(gen.Case(("ladder:unary", f"depth:{d}"), w("-" * d + "1"), 2))
        out.append(gen.Case(("ladder:not", f"depth:{d}"), w("not " * d + "a"), 2))
        out.append(gen.Case(("ladder:closure", f"depth:{d}"), w("".join(f"(p{k}) => " for k in range(d)) + "1"), 2))
        out.append(gen.Case(("ladder:type", f"depth:{d}"), f"def f(a: {'List[' * d}int{']' * d}) -> None:\n    pass\n", 2))
        out.append(gen.Case(("ladder:field_chain", f"depth:{d}"), w("a" + ".b" * d), 2))
        out.append(gen.Case(("ladder:index_chain", f"depth:{d}"), w("a" + "[0]" * d), 2))
    return out


def collect(tier):
    level = 3 if tier == "thorough" else 2
    cases = list(gen.enumerate_cases(level)) + ladders(tier)
    # repository sources as additional base programs
    for f in corpus.files():
        try:
            cases.append(gen.Case((f"file:{f[len(common.REPO) + 1:]}",), open(f, encoding="utf-8").read(), 1))
        except OSError:
            pass
    reqs = [{"id": i, "op": "fmt", "src": c.src} for i, c in enumerate(cases)]
    res = serve.run_requests(reqs)
    return cases, [res.get(i, {"crashed": True}) for i in range(len(cases))]


def classify_c08(r):
    """None if the case satisfies C08, else a failure kind."""
    if r.get("crashed"):
        return "formatter-crashed"
    if not r.get("parses"):
        return None  # not in the domain of the property
    if r.get("fmt") != "ok":
        return "fmt-" + str(r.get("fmt"))
    if not r.get("reparses"):
        return "output-does-not-parse"
    if not r.get("same_ast") and norm_sig(r.get("ast_a")) != norm_sig(r.get("ast_b")):
        return "tree-differs"
    return None


def classify_c09(r):
    if r.get("crashed") or not r.get("parses") or r.get("fmt") != "ok":
        return None  # C08's business / outside the domain
    if not r.get("reparses"):
        return "second-format-impossible"  # the formatter cannot format its own output (C08 reports the same case as output-does-not-parse)
    if r.get("idempotent") is False:
        return "not-idempotent"
    if r.get("idempotent") is None:
        return "second-format-failed"
    if r.get("surface"):
        s = r["surface"][0]
        return "surface:" + ("newline-count" if "newline" in s else ("tab" if "tab" in s else "trailing-whitespace"))
    return None


def attribute(cases, results, classify):
    """Return (failures, stats). failures: list of (key, case_dict) with key = minimal responsible signature."""
    kinds = [classify(r) for r in results]
    l1_fail = {}
    for c, k in zip(cases, kinds):
        if k and len(c.sig) == 1:
            l1_fail[c.sig[0]] = k
    pair_fail = {}
    for c, k in zip(cases, kinds):
        if k and len(c.sig) == 2 and l1_fail.get(c.sig[0]) != k:
            pair_fail[c.sig] = k
    fails = []
    for c, k, r in zip(cases, kinds, results):
        if not k:
            continue
        if l1_fail.get(c.sig[0]) == k:
            key = f"{c.sig[0]}|{k}"
        elif len(c.sig) >= 2 and pair_fail.get(c.sig[:2]) == k:
            key = f"{c.sig[0]}@{c.sig[1]}|{k}"
        else:
            key = "@".join(c.sig) + f"|{k}"
        fails.append((key, len(c.sig), {"sig": list(c.sig), "kind": k, "src": c.src, "out": r.get("out"), "why": r.get("why"), "out2": r.get("out2"), "surface": r.get("surface")}))
    return fails, kinds
