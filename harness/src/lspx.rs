//! C18 – stateless, deviation-bounded schedule explorer for the real `IncanLanguageServer`.
//!
//! The system under test is the real backend inside a real `tower_lsp::LspService`. There is no runtime and there are no
//! threads: this module is the executor. Each client message becomes the future returned by `service.call(request)`;
//! the client side is the real `ClientSocket` stream. Choice points are exactly where the real system is
//! nondeterministic:
//!   Arrive   hand the next client message to the service (at most 4 handlers in flight, as `buffer_unordered(4)`)
//!   Poll(i)  poll one in-flight handler whose waker has fired (first polls happen in arrival order)
//!   Drain    the environment takes one message off the ClientSocket (back-pressure: channel capacity 1)
//! A *mode* fixes the default choice (eager client: drain first; lazy client: drain only when nothing else can move);
//! a *deviation* is any other enabled choice. All schedules with <= k deviations are explored by DFS with replay from
//! the initial state (fresh service per execution); every execution runs to quiescence and is then judged against the
//! reference model (a dict and max).
use crate::util::{arg, arg_usize, jstr};
use futures::stream::{Stream, StreamExt};
use futures::task::{ArcWake, waker};
use incan::lsp::backend::IncanLanguageServer;
use serde_json::{Value, json};
use std::collections::{BTreeMap, HashSet};
use std::future::Future;
use std::io::Write;
use std::pin::Pin;
use std::sync::Arc;
use std::sync::atomic::{AtomicBool, Ordering};
use std::task::{Context, Poll};
use tower::Service;
use tower_lsp::jsonrpc::{Request, Response};
use tower_lsp::{ClientSocket, LspService};

struct Flag(AtomicBool);
impl ArcWake for Flag {
    fn wake_by_ref(a: &Arc<Self>) {
        a.0.store(true, Ordering::SeqCst);
    }
}

type HFut = Pin<Box<dyn Future<Output = Result<Option<Response>, tower_lsp::ExitedError>> + Send>>;

struct Handler {
    label: String,
    fut: HFut,
    flag: Arc<Flag>,
    polled: bool,
}

#[derive(Clone, Debug)]
pub struct Event {
    pub op: String, // open | change | close
    pub doc: String,
    pub ver: i32,
    pub text: String,
}

#[derive(Clone, Copy, PartialEq, Eq, Debug)]
enum Choice {
    Drain,
    Arrive,
    Poll(usize), // index into in-flight list
}

pub struct World {
    svc: LspService<IncanLanguageServer>,
    sock: ClientSocket,
    sock_flag: Arc<Flag>,
    handlers: Vec<Handler>,
    next_event: usize,
    next_id: i64,
    pub published: Vec<Value>,
    pub trace: Vec<String>,
    pub transitions: u64,
}

fn uri_of(dir: &str, doc: &str) -> String {
    format!("file://{}/{}.incn", dir, doc.to_lowercase())
}

impl World {
    fn new() -> World {
        let (svc, sock) = LspService::new(IncanLanguageServer::new);
        World {
            svc,
            sock,
            sock_flag: Arc::new(Flag(AtomicBool::new(true))),
            handlers: Vec::new(),
            next_event: 0,
            next_id: 1,
            published: Vec::new(),
            trace: Vec::new(),
            transitions: 0,
        }
    }

    fn call(&mut self, req: Request, label: &str) {
        // poll_ready of LspService is always Ready unless exited
        let w = waker(Arc::new(Flag(AtomicBool::new(false))));
        let mut cx = Context::from_waker(&w);
        let _ = self.svc.poll_ready(&mut cx);
        let fut: HFut = Box::pin(self.svc.call(req));
        self.handlers.push(Handler {
            label: label.to_string(),
            fut,
            flag: Arc::new(Flag(AtomicBool::new(true))),
            polled: false,
        });
    }

    /// Poll handler i once. Returns Some(response) if it completed.
    fn poll_handler(&mut self, i: usize) -> Option<Option<Response>> {
        let h = &mut self.handlers[i];
        h.flag.0.store(false, Ordering::SeqCst);
        h.polled = true;
        let w = waker(h.flag.clone());
        let mut cx = Context::from_waker(&w);
        self.transitions += 1;
        match h.fut.as_mut().poll(&mut cx) {
            Poll::Ready(r) => {
                self.handlers.remove(i);
                Some(r.ok().flatten())
            }
            Poll::Pending => None,
        }
    }

    /// Try to take one message off the client socket.
    fn try_drain(&mut self) -> Option<Value> {
        let w = waker(self.sock_flag.clone());
        let mut cx = Context::from_waker(&w);
        self.sock_flag.0.store(false, Ordering::SeqCst);
        match self.sock.poll_next_unpin(&mut cx) {
            Poll::Ready(Some(req)) => {
                self.sock_flag.0.store(true, Ordering::SeqCst);
                self.transitions += 1;
                Some(serde_json::to_value(&req).unwrap_or(Value::Null))
            }
            _ => None,
        }
    }

    /// Drive everything in flight to completion with an eager client (used for setup and for the final queries).
    fn settle(&mut self) -> Vec<Option<Response>> {
        let mut out = Vec::new();
        let mut idle = 0;
        while !self.handlers.is_empty() {
            let mut progressed = false;
            while let Some(m) = self.try_drain() {
                self.note_client_message(m);
                progressed = true;
            }
            let mut i = 0;
            while i < self.handlers.len() {
                if self.handlers[i].flag.0.load(Ordering::SeqCst) {
                    progressed = true;
                    if let Some(r) = self.poll_handler(i) {
                        out.push(r);
                        continue;
                    }
                }
                i += 1;
            }
            if !progressed {
                idle += 1;
                if idle > 3 {
                    break;
                }
            } else {
                idle = 0;
            }
        }
        while let Some(m) = self.try_drain() {
            self.note_client_message(m);
        }
        out
    }

    fn note_client_message(&mut self, m: Value) {
        if m.get("method").and_then(|v| v.as_str()) == Some("textDocument/publishDiagnostics") {
            self.published.push(m.get("params").cloned().unwrap_or(Value::Null));
        }
    }

    fn request(&mut self, method: &'static str, params: Value) -> Option<Response> {
        let id = self.next_id;
        self.next_id += 1;
        let req = Request::build(method).params(params).id(id).finish();
        self.call(req, method);
        self.settle().into_iter().flatten().next()
    }

    fn notify(&mut self, method: &'static str, params: Value, label: &str) {
        let req = Request::build(method).params(params).finish();
        self.call(req, label);
    }

    fn initialize(&mut self) {
        let _ = self.request("initialize", json!({"capabilities": {}}));
        self.notify("initialized", json!({}), "initialized");
        self.settle();
        self.published.clear();
        self.transitions = 0;
    }

    fn arrive(&mut self, dir: &str, ev: &Event) {
        let uri = uri_of(dir, &ev.doc);
        let label = format!("{}({},v{})", ev.op, ev.doc, ev.ver);
        match ev.op.as_str() {
            "open" => self.notify(
                "textDocument/didOpen",
                json!({"textDocument": {"uri": uri, "languageId": "incan", "version": ev.ver, "text": ev.text}}),
                &label,
            ),
            "change" => self.notify(
                "textDocument/didChange",
                json!({"textDocument": {"uri": uri, "version": ev.ver}, "contentChanges": [{"text": ev.text}]}),
                &label,
            ),
            _ => self.notify("textDocument/didClose", json!({"textDocument": {"uri": uri}}), &label),
        }
        self.transitions += 1;
    }

    /// Enabled choices in canonical priority order for the given mode.
    fn enabled(&mut self, n_events: usize, lazy_drain: bool) -> Vec<Choice> {
        let mut v = Vec::new();
        // a drain is enabled iff a message is waiting; peek by attempting and stashing is not possible, so probe via
        // the stream's size_hint (futures mpsc: lower bound = queued messages)
        let can_drain = self.sock.size_hint().0 > 0;
        let can_arrive = self.next_event < n_events && self.handlers.len() < 4;
        let mut polls = Vec::new();
        let first_unpolled = self.handlers.iter().position(|h| !h.polled);
        for (i, h) in self.handlers.iter().enumerate() {
            if !h.flag.0.load(Ordering::SeqCst) {
                continue;
            }
            if !h.polled && Some(i) != first_unpolled {
                continue; // first polls happen in arrival order
            }
            polls.push(Choice::Poll(i));
        }
        if !lazy_drain && can_drain {
            v.push(Choice::Drain);
        }
        if can_arrive {
            v.push(Choice::Arrive);
        }
        v.extend(polls);
        if lazy_drain && can_drain {
            v.push(Choice::Drain);
        }
        v
    }
}

pub struct ExecResult {
    pub choices: Vec<usize>,     // index chosen at each point
    pub n_enabled: Vec<usize>,   // number of enabled choices at each point
    pub trace: Vec<String>,
    pub verdict: Option<String>, // None = ok
    pub observation: String,
    pub transitions: u64,
    pub pending_polls: u64,
}

/// Run one execution: follow `prefix`, then always take choice 0 (the mode's default).
pub fn execute(dir: &str, history: &[Event], lazy_drain: bool, prefix: &[usize]) -> ExecResult {
    let mut w = World::new();
    w.initialize();
    let mut choices = Vec::new();
    let mut n_enabled = Vec::new();
    let mut verdict: Option<String> = None;
    let mut pending_polls = 0u64;
    let horizon = 400;
    loop {
        let en = w.enabled(history.len(), lazy_drain);
        if en.is_empty() {
            if !w.handlers.is_empty() {
                verdict = Some(format!(
                    "deadlock: handlers {:?} pending with no enabled step",
                    w.handlers.iter().map(|h| h.label.clone()).collect::<Vec<_>>()
                ));
            }
            break;
        }
        let k = choices.len();
        let pick = if k < prefix.len() {
            if prefix[k] >= en.len() {
                verdict = Some(format!("MACHINERY: replay diverged at step {k}: choice {} of {}", prefix[k], en.len()));
                break;
            }
            prefix[k]
        } else {
            0
        };
        choices.push(pick);
        n_enabled.push(en.len());
        match en[pick] {
            Choice::Drain => {
                if let Some(m) = w.try_drain() {
                    let desc = if m.get("method").and_then(|v| v.as_str()) == Some("textDocument/publishDiagnostics") {
                        let p = &m["params"];
                        format!("drain publish({},v={})", p["uri"].as_str().unwrap_or("?").rsplit('/').next().unwrap_or("?"), p["version"])
                    } else {
                        "drain other".to_string()
                    };
                    w.trace.push(desc);
                    w.note_client_message(m);
                } else {
                    w.trace.push("drain (nothing)".to_string());
                }
            }
            Choice::Arrive => {
                let ev = history[w.next_event].clone();
                w.next_event += 1;
                w.trace.push(format!("arrive {}({},v{})", ev.op, ev.doc, ev.ver));
                w.arrive(dir, &ev);
            }
            Choice::Poll(i) => {
                let label = w.handlers[i].label.clone();
                match w.poll_handler(i) {
                    Some(_) => w.trace.push(format!("poll {label} -> done")),
                    None => {
                        pending_polls += 1;
                        w.trace.push(format!("poll {label} -> pending"))
                    }
                }
            }
        }
        if choices.len() > horizon {
            verdict = Some("horizon exceeded (livelock?)".to_string());
            break;
        }
    }
    // quiescence: judge against the reference model
    let mut observation = String::new();
    if verdict.is_none() {
        let (v, obs) = judge(&mut w, dir, history);
        verdict = v;
        observation = obs;
    }
    ExecResult {
        choices,
        n_enabled,
        trace: w.trace.clone(),
        verdict,
        observation,
        transitions: w.transitions,
        pending_polls,
    }
}

fn marker_of(text: &str) -> Option<String> {
    // a text that does not parse is not judged (the server keeps the last good AST by design)
    if text.contains("def broken(:") {
        return None;
    }
    // every version's text declares `def marker_<doc>_v<k>()`
    let i = text.find("def marker_")?;
    let rest = &text[i + 4..];
    let end = rest.find('(')?;
    Some(rest[..end].to_string())
}

/// Reference model: dict doc -> (version, text); close removes; the highest version sent since the last open wins.
fn judge(w: &mut World, dir: &str, history: &[Event]) -> (Option<String>, String) {
    let mut model: BTreeMap<String, (i32, String)> = BTreeMap::new();
    let mut docs: Vec<String> = Vec::new();
    // a version number can be sent twice for one document (a re-open may restart at 1): all texts sent under it
    let mut sent: BTreeMap<(String, i32), Vec<String>> = BTreeMap::new();
    for ev in history {
        if !docs.contains(&ev.doc) {
            docs.push(ev.doc.clone());
        }
        match ev.op.as_str() {
            "open" => {
                model.insert(ev.doc.clone(), (ev.ver, ev.text.clone()));
                sent.entry((ev.doc.clone(), ev.ver)).or_default().push(ev.text.clone());
            }
            "change" => {
                let cur = model.get(&ev.doc).map(|x| x.0).unwrap_or(i32::MIN);
                if ev.ver >= cur {
                    model.insert(ev.doc.clone(), (ev.ver, ev.text.clone()));
                }
                sent.entry((ev.doc.clone(), ev.ver)).or_default().push(ev.text.clone());
            }
            _ => {
                model.remove(&ev.doc);
            }
        }
    }
    let published = w.published.clone();
    let mut obs = String::new();
    let mut problem: Option<String> = None;
    for d in &docs {
        let uri = uri_of(dir, d);
        let resp = w.request(
            "textDocument/completion",
            json!({"textDocument": {"uri": uri}, "position": {"line": 0, "character": 0}}),
        );
        let val = resp.map(|r| serde_json::to_value(&r).unwrap_or(Value::Null)).unwrap_or(Value::Null);
        let result = val.get("result").cloned().unwrap_or(Value::Null);
        let labels: Vec<String> = result
            .as_array()
            .map(|a| a.iter().filter_map(|it| it["label"].as_str().map(|s| s.to_string())).filter(|l| l.starts_with("marker_")).collect())
            .unwrap_or_default();
        // hover on the marker's name (line 0, col 4 of every text) must agree with completion
        let hov = w.request(
            "textDocument/hover",
            json!({"textDocument": {"uri": uri}, "position": {"line": 0, "character": 5}}),
        );
        let hov_s = hov.map(|r| serde_json::to_value(&r).unwrap_or(Value::Null).to_string()).unwrap_or_default();
        let hov_marker: Option<String> = hov_s.find("marker_").map(|i| {
            hov_s[i..].chars().take_while(|c| c.is_ascii_alphanumeric() || *c == '_').collect()
        });
        obs.push_str(&format!("{d}: completion={:?} hover={:?}; ", if result.is_null() { None } else { Some(labels.clone()) }, hov_marker));
        match model.get(d) {
            None => {
                if !result.is_null() && problem.is_none() {
                    problem = Some(format!("document {d} was closed last but the server still answers completion from {labels:?}"));
                }
                if hov_marker.is_some() && problem.is_none() {
                    problem = Some(format!("document {d} was closed last but hover still answers {hov_marker:?}"));
                }
            }
            Some((ver, text)) => {
                let want = marker_of(text);
                if let Some(want) = want {
                    if result.is_null() {
                        if problem.is_none() {
                            problem = Some(format!("document {d} is open at version {ver} but the server answers as if it were closed"));
                        }
                    } else if labels != vec![want.clone()] {
                        if problem.is_none() {
                            problem = Some(format!("document {d}: highest version sent in the current session is {ver} ({want}) but completion answers from {labels:?}"));
                        }
                    } else if hov_marker.as_deref() != Some(want.as_str()) && problem.is_none() {
                        problem = Some(format!("document {d}: hover answers {hov_marker:?}, expected {want}"));
                    }
                    // a publish for the highest version must exist
                    let has = published.iter().any(|p| p["uri"].as_str() == Some(uri.as_str()) && p["version"].as_i64() == Some(*ver as i64));
                    if !has && problem.is_none() {
                        problem = Some(format!("document {d}: no diagnostics were published for the highest version {ver}"));
                    }
                }
            }
        }
    }
    // every publish carrying a version must have been computed from that version's text (its unknown-symbol marker)
    for p in &published {
        let Some(ver) = p["version"].as_i64() else { continue };
        let uri = p["uri"].as_str().unwrap_or("");
        let Some(doc) = docs.iter().find(|d| uri_of(dir, d) == uri) else { continue };
        let Some(texts) = sent.get(&(doc.clone(), ver as i32)) else {
            if problem.is_none() {
                problem = Some(format!("publish for {doc} carries version {ver}, which was never sent"));
            }
            continue;
        };
        let wants: Vec<String> = texts.iter().filter_map(|t| marker_of(t)).map(|m| m.replace("marker_", "unknown_")).collect();
        if wants.len() != texts.len() {
            continue;
        }
        let msgs: Vec<String> = p["diagnostics"].as_array().map(|a| a.iter().filter_map(|d| d["message"].as_str().map(|s| s.to_string())).collect()).unwrap_or_default();
        let mentions: Vec<&String> = msgs.iter().filter(|m| m.contains("unknown_")).collect();
        // dependency publishes for a document (empty or parse errors) carry no unknown_ marker: only judge analysed ones
        if !mentions.is_empty() && !mentions.iter().any(|m| wants.iter().any(|w| m.contains(w.as_str()))) && problem.is_none() {
            problem = Some(format!("diagnostics published for {doc} version {ver} were computed from another text: {mentions:?}"));
        }
    }
    // the last analysed diagnostics of every open document must have been computed from its current text
    for d in &docs {
        let Some((ver, text)) = model.get(d) else { continue };
        let Some(m) = marker_of(text) else { continue };
        let want = m.replace("marker_", "unknown_");
        let uri = uri_of(dir, d);
        let last = published.iter().rev().find(|p| {
            p["uri"].as_str() == Some(uri.as_str())
                && p["diagnostics"].as_array().is_some_and(|a| a.iter().any(|x| x["message"].as_str().is_some_and(|s| s.contains("unknown_"))))
        });
        if let Some(p) = last {
            let ok = p["diagnostics"].as_array().is_some_and(|a| a.iter().any(|x| x["message"].as_str().is_some_and(|s| s.contains(&want))));
            if !ok && problem.is_none() {
                problem = Some(format!("the last diagnostics published for {d} (current version {ver}) were computed from another text: {}", p["diagnostics"]));
            }
        }
    }
    // the last analysed publish of the highest version must be consistent too (covered by the loop above)
    (problem, obs)
}

pub fn parse_history(v: &Value) -> Vec<Event> {
    v.as_array()
        .map(|a| {
            a.iter()
                .map(|e| Event {
                    op: e["op"].as_str().unwrap_or("").to_string(),
                    doc: e["doc"].as_str().unwrap_or("").to_string(),
                    ver: e["ver"].as_i64().unwrap_or(0) as i32,
                    text: e["text"].as_str().unwrap_or("").to_string(),
                })
                .collect()
        })
        .unwrap_or_default()
}

/// `ivh lspx --dir <abs dir> --bound k [--cap N]` ; histories as JSON lines on stdin; one JSON result line per history.
pub fn run_lspx(args: &[String]) {
    let dir = arg(args, "--dir").expect("--dir");
    let bound = arg_usize(args, "--bound", 2);
    let cap = arg_usize(args, "--cap", 2_000_000) as u64;
    let stdin = std::io::stdin();
    let stdout = std::io::stdout();
    let mut out = stdout.lock();
    for line in std::io::BufRead::lines(stdin.lock()) {
        let Ok(line) = line else { break };
        if line.trim().is_empty() {
            continue;
        }
        let v: Value = serde_json::from_str(&line).expect("history json");
        let hist = parse_history(&v["history"]);
        let hid = v["id"].clone();
        let mut execs: u64 = 0;
        let mut transitions: u64 = 0;
        let mut nontrivial: u64 = 0;
        let mut capped = false;
        let mut observations: HashSet<String> = HashSet::new();
        let mut violations: Vec<Value> = Vec::new();
        let mut replay_checked = 0u64;
        let mut sample: Option<Value> = None;
        for lazy in [false, true] {
            // DFS over prefixes: stack of (prefix, deviations used)
            let mut stack: Vec<(Vec<usize>, usize)> = vec![(Vec::new(), 0)];
            while let Some((prefix, used)) = stack.pop() {
                if execs >= cap {
                    capped = true;
                    break;
                }
                let r = execute(&dir, &hist, lazy, &prefix);
                execs += 1;
                transitions += r.transitions;
                if r.pending_polls > 0 {
                    nontrivial += 1;
                }
                observations.insert(r.observation.clone());
                if sample.is_none() && r.pending_polls > 0 && used > 0 {
                    sample = Some(json!({"mode": if lazy {"lazy-drain"} else {"eager-drain"}, "schedule": r.choices, "trace": r.trace}));
                }
                let is_violation = r.verdict.is_some();
                // determinism: every violating schedule and one in 500 others is replayed and must be identical
                if is_violation || execs % 500 == 0 {
                    let r2 = execute(&dir, &hist, lazy, &r.choices);
                    replay_checked += 1;
                    if r2.trace != r.trace || r2.verdict != r.verdict || r2.observation != r.observation {
                        violations.push(json!({"kind": "MACHINERY: replay of the same schedule gave a different observation", "schedule": r.choices, "trace": r.trace, "trace2": r2.trace}));
                    }
                }
                if let Some(vd) = &r.verdict {
                    if violations.len() < 20 {
                        violations.push(json!({
                            "kind": vd, "mode": if lazy {"lazy-drain"} else {"eager-drain"}, "deviations": used,
                            "schedule": r.choices, "trace": r.trace, "observation": r.observation,
                        }));
                    }
                }
                // children: deviate at any point after the prefix
                if used < bound {
                    for i in (prefix.len()..r.choices.len()).rev() {
                        for alt in (1..r.n_enabled[i]).rev() {
                            let mut p = r.choices[..i].to_vec();
                            p.push(alt);
                            stack.push((p, used + 1));
                        }
                    }
                }
            }
        }
        let _ = writeln!(
            out,
            "{}",
            json!({
                "id": hid, "executions": execs, "transitions": transitions, "nontrivial": nontrivial, "capped": capped,
                "distinct_observations": observations.len(), "replays_checked": replay_checked,
                "violations": violations, "sample": sample,
            })
        );
        let _ = out.flush();
    }
}

/// `ivh lspx-one --dir D --mode lazy|eager --schedule 0,1,0,...` with one history JSON on stdin.
pub fn run_lspx_one(args: &[String]) {
    let dir = arg(args, "--dir").expect("--dir");
    let lazy = arg(args, "--mode").as_deref() == Some("lazy-drain");
    let sched: Vec<usize> = arg(args, "--schedule")
        .unwrap_or_default()
        .split(',')
        .filter(|s| !s.is_empty())
        .map(|s| s.parse().expect("choice"))
        .collect();
    let mut line = String::new();
    std::io::stdin().read_line(&mut line).expect("stdin");
    let v: Value = serde_json::from_str(&line).expect("json");
    let hist = parse_history(&v["history"]);
    let r = execute(&dir, &hist, lazy, &sched);
    println!(
        "{}",
        json!({"verdict": r.verdict, "trace": r.trace, "observation": r.observation, "schedule": r.choices, "note": jstr("replayed without the explorer")})
    );
}

// ---------------------------------------------------------------------------------------------------------------
// C14: which files does the real language server load for an entry document? (observed without hooks: the backend
// publishes diagnostics under the URI of every dependency it resolved and parsed)
// ---------------------------------------------------------------------------------------------------------------

/// Open `entry` (an absolute path) in a fresh real server and return the URIs of all dependency documents it published for.
pub fn lsp_resolved_files(entry: &str) -> Vec<String> {
    let text = std::fs::read_to_string(entry).unwrap_or_default();
    let mut w = World::new();
    w.initialize();
    let uri = format!("file://{entry}");
    w.notify(
        "textDocument/didOpen",
        json!({"textDocument": {"uri": uri, "languageId": "incan", "version": 1, "text": text}}),
        "open",
    );
    w.settle();
    let mut out: Vec<String> = w
        .published
        .iter()
        .filter_map(|p| p["uri"].as_str().map(|s| s.to_string()))
        .filter(|u| *u != uri)
        .collect();
    out.sort();
    out.dedup();
    out
}

/// `ivh resolve` – JSON lines on stdin: {"id":..,"entry":"/abs/path/main.incn"}; output: what the CLI's collect_modules
/// loaded (by marker found in the loaded sources) and what the language server resolved (by published URI).
pub fn run_resolve(_args: &[String]) {
    let stdin = std::io::stdin();
    let stdout = std::io::stdout();
    let mut out = stdout.lock();
    for line in std::io::BufRead::lines(stdin.lock()) {
        let Ok(line) = line else { break };
        if line.trim().is_empty() {
            continue;
        }
        let v: Value = serde_json::from_str(&line).expect("json");
        let entry = v["entry"].as_str().unwrap_or("").to_string();
        let cli = match crate::util::catch(|| incan::cli::commands::collect_modules(&entry)) {
            Ok(Ok(mods)) => {
                let mut ids: Vec<String> = Vec::new();
                // the entry is the last module
                let n = mods.len();
                for m in mods.iter().take(n.saturating_sub(1)) {
                    if let Some(i) = m.source.find("marker_") {
                        let id: String = m.source[i..].chars().take_while(|c| c.is_ascii_alphanumeric() || *c == '_').collect();
                        ids.push(id);
                    } else {
                        ids.push("<no marker>".to_string());
                    }
                }
                ids.sort();
                json!({"ok": true, "markers": ids})
            }
            Ok(Err(e)) => json!({"ok": false, "error": e.message.chars().take(300).collect::<String>()}),
            Err(m) => json!({"ok": false, "panic": m}),
        };
        let lsp = match crate::util::catch(|| lsp_resolved_files(&entry)) {
            Ok(u) => json!({"ok": true, "uris": u}),
            Err(m) => json!({"ok": false, "panic": m}),
        };
        let _ = writeln!(out, "{}", json!({"id": v["id"], "cli": cli, "lsp": lsp}));
        let _ = out.flush();
    }
}

// ---------------------------------------------------------------------------------------------------------------
// C19 (language-server half): every range the real server publishes or answers lies inside the document it is about.
// ---------------------------------------------------------------------------------------------------------------

/// All valid LSP positions of a text: the (line, character) of every char-boundary offset, by counting.
fn valid_positions(text: &str) -> HashSet<(u64, u64)> {
    let mut out = HashSet::new();
    let (mut line, mut col) = (0u64, 0u64);
    out.insert((0, 0));
    for ch in text.chars() {
        if ch == '\n' {
            line += 1;
            col = 0;
        } else {
            col += 1;
        }
        out.insert((line, col));
    }
    out
}

fn range_problem(r: &Value, text: &str) -> Option<String> {
    let p = |v: &Value| (v["line"].as_u64().unwrap_or(u64::MAX), v["character"].as_u64().unwrap_or(u64::MAX));
    let (s, e) = (p(&r["start"]), p(&r["end"]));
    let valid = valid_positions(text);
    if !valid.contains(&s) || !valid.contains(&e) {
        return Some(format!("range ({},{})-({},{}) is not inside the document ({} lines)", s.0, s.1, e.0, e.1, text.matches('\n').count() + 1));
    }
    if s > e {
        return Some(format!("range start ({},{}) is after its end ({},{})", s.0, s.1, e.0, e.1));
    }
    None
}

fn collect_ranges(v: &Value, out: &mut Vec<Value>) {
    match v {
        Value::Object(m) => {
            for (k, x) in m {
                if (k == "range" || k == "selectionRange" || k == "targetRange") && x.get("start").is_some() {
                    out.push(x.clone());
                }
                collect_ranges(x, out);
            }
        }
        Value::Array(a) => a.iter().for_each(|x| collect_ranges(x, out)),
        _ => {}
    }
}

/// `ivh lsprange --dir <abs dir>`; JSON lines {id, entry, dep (string|null), dep_open (bool)}; one JSON result per line.
pub fn run_lsprange(args: &[String]) {
    let dir = arg(args, "--dir").expect("--dir");
    std::fs::create_dir_all(&dir).expect("dir");
    let stdin = std::io::stdin();
    let stdout = std::io::stdout();
    let mut out = stdout.lock();
    for line in std::io::BufRead::lines(stdin.lock()) {
        let Ok(line) = line else { break };
        if line.trim().is_empty() {
            continue;
        }
        let v: Value = serde_json::from_str(&line).expect("case json");
        let entry = v["entry"].as_str().unwrap_or("").to_string();
        let dep = v["dep"].as_str().map(|s| s.to_string());
        let dep_path = format!("{dir}/b.incn");
        match &dep {
            Some(t) => std::fs::write(&dep_path, t).expect("write dep"),
            None => {
                let _ = std::fs::remove_file(&dep_path);
            }
        }
        std::fs::write(format!("{dir}/a.incn"), &entry).expect("write entry");
        let mut w = World::new();
        w.initialize();
        let mut problems: Vec<String> = Vec::new();
        let res = std::panic::catch_unwind(std::panic::AssertUnwindSafe(|| {
            w.arrive(&dir, &Event { op: "open".into(), doc: "A".into(), ver: 1, text: entry.clone() });
            w.settle();
            if v["dep_open"].as_bool() == Some(true) {
                if let Some(t) = &dep {
                    w.arrive(&dir, &Event { op: "open".into(), doc: "B".into(), ver: 1, text: t.clone() });
                    w.settle();
                }
            }
        }));
        if res.is_err() {
            problems.push("the server panicked while analysing".into());
        }
        let text_of = |uri: &str| -> Option<String> {
            if uri == uri_of(&dir, "A") {
                Some(entry.clone())
            } else if uri == uri_of(&dir, "B") {
                dep.clone()
            } else {
                None
            }
        };
        let mut n_ranges = 0u64;
        let mut n_diags = 0u64;
        for p in w.published.clone() {
            let uri = p["uri"].as_str().unwrap_or("").to_string();
            let Some(text) = text_of(&uri) else {
                if p["diagnostics"].as_array().is_some_and(|a| !a.is_empty()) {
                    problems.push(format!("diagnostics published for a document that does not exist: {uri}"));
                }
                continue;
            };
            for d in p["diagnostics"].as_array().cloned().unwrap_or_default() {
                n_diags += 1;
                n_ranges += 1;
                if let Some(why) = range_problem(&d["range"], &text) {
                    problems.push(format!("diagnostic {:?} for {}: {why}", d["message"].as_str().unwrap_or(""), if uri.ends_with("a.incn") { "the entry document" } else { "the dependency" }));
                }
                for ri in d["relatedInformation"].as_array().cloned().unwrap_or_default() {
                    let ruri = ri["location"]["uri"].as_str().unwrap_or("").to_string();
                    if let Some(rt) = text_of(&ruri) {
                        n_ranges += 1;
                        if let Some(why) = range_problem(&ri["location"]["range"], &rt) {
                            problems.push(format!("related information of {:?}: {why}", d["message"].as_str().unwrap_or("")));
                        }
                    }
                }
            }
        }
        // symbol and hover replies for the entry document
        let uri = uri_of(&dir, "A");
        let sym = w.request("textDocument/documentSymbol", json!({"textDocument": {"uri": uri}}));
        let mut rs = Vec::new();
        if let Some(r) = sym {
            collect_ranges(&serde_json::to_value(&r).unwrap_or(Value::Null), &mut rs);
        }
        let n_lines = entry.matches('\n').count() as u64 + 1;
        for l in 0..n_lines {
            for c in [0u64, 4, 8] {
                for m in ["textDocument/hover", "textDocument/definition"] {
                    let r = w.request(m, json!({"textDocument": {"uri": uri}, "position": {"line": l, "character": c}}));
                    if let Some(r) = r {
                        let val = serde_json::to_value(&r).unwrap_or(Value::Null);
                        // definition answers may point into the dependency: only ranges for the entry URI are judged here
                        if m == "textDocument/hover" || val.to_string().contains("a.incn") && !val.to_string().contains("b.incn") {
                            collect_ranges(&val, &mut rs);
                        }
                    }
                }
            }
        }
        for r in rs {
            n_ranges += 1;
            if let Some(why) = range_problem(&r, &entry) {
                problems.push(format!("symbol / hover / definition reply: {why}"));
            }
        }
        problems.sort();
        problems.dedup();
        let _ = writeln!(out, "{}", json!({"id": v["id"], "problems": problems, "ranges": n_ranges, "diagnostics": n_diags, "publishes": w.published.len()}));
    }
}
