"""Semantic program space for C01 / C02 (and reused by C13): *units* written in the subset that Incan shares with Python,
a mechanical transliteration to Python, and CPython as the reference evaluator.

A unit = top-level declarations (names prefixed per unit) + a driver block that prints. Units are packed into one
program; main prints a frame line `@@<unit>` before each unit's driver. The same packing is transliterated and run by
CPython; outputs are compared unit by unit (floats numerically, bools case-insensitively).
"""
import itertools
import re
import subprocess
import sys

from .gen import ind

PY_PRELUDE = '''from __future__ import annotations
import sys, math
from dataclasses import dataclass, field


class Some:
    __match_args__ = ("v",)

    def __init__(self, v):
        self.v = v

    def __eq__(self, o):
        return isinstance(o, Some) and o.v == self.v


class Ok:
    __match_args__ = ("v",)

    def __init__(self, v):
        self.v = v


class Err:
    __match_args__ = ("v",)

    def __init__(self, v):
        self.v = v


class _Stop(Exception):
    pass


def _show(x):
    if x is True:
        return "true"
    if x is False:
        return "false"
    if isinstance(x, float):
        return "F" + repr(x)
    return str(x)


def println(*a):
    print(*[_show(x) for x in a], flush=True)


def _die(msg):
    sys.stdout.flush()
    sys.stderr.write("PANIC " + msg + "\\n")
    sys.exit(101)


def _idx(seq, i):
    try:
        return seq[i]
    except IndexError:
        if isinstance(seq, str):
            _die("IndexError: string index out of range")
        _die(f"IndexError: index {i} out of range for list of length {len(seq)}")
    except KeyError:
        _die(f"KeyError: '{i}' not found in dict")


def _slice(seq, a, b, c):
    if c == 0:
        _die("ValueError: slice step cannot be zero")
    return seq[a:b:c]


def _div(a, b):
    if b == 0:
        _die("ZeroDivisionError: float division by zero")
    return a / b


def _fdiv(a, b):
    if b == 0:
        _die("ZeroDivisionError: float division by zero")
    return a // b


def _mod(a, b):
    if b == 0:
        _die("ZeroDivisionError: float division by zero")
    return a % b


def _range(*a):
    if len(a) == 3 and a[2] == 0:
        _die("ValueError: range() arg 3 must not be zero")
    return range(*a)
'''


class Unit:
    def __init__(self, name, decls, driver, py_decls=None, py_driver=None, tags=(), panics=False):
        self.name = name
        self.decls = decls.strip("\n")
        self.driver = driver.strip("\n")
        self.py_decls = py_decls
        self.py_driver = py_driver
        self.tags = tuple(tags)
        self.panics = panics  # expected to stop with a runtime error: must be last in its program


_ENUM = re.compile(r"^enum (\w+):\n((?:    .*\n?)+)", re.M)


def _py_enum(m):
    name = m.group(1)
    lines = [l.strip() for l in m.group(2).strip("\n").split("\n") if l.strip()]
    out = [f"class {name}:", "    pass", ""]
    for l in lines:
        vm = re.match(r"(\w+)(?:\((.*)\))?$", l)
        v, args = vm.group(1), vm.group(2)
        if args:
            n = len([a for a in args.split(",")])
            fields = ", ".join(f'"f{i}"' for i in range(n))
            params = ", ".join(f"f{i}" for i in range(n))
            body = "\n".join(f"        self.f{i} = f{i}" for i in range(n))
            out += [
                f"class _{name}_{v}({name}):",
                f"    __match_args__ = ({fields},)",
                f"    def __init__(self, {params}):",
                body,
                f"{name}.{v} = _{name}_{v}",
                "",
            ]
        else:
            out += [f"class _{name}_{v}_T({name}):", "    pass", f"{name}.{v} = _{name}_{v}_T()", ""]
    return "\n".join(out) + "\n"


def to_python(text):
    """Mechanical transliteration of the shared subset."""
    t = _ENUM.sub(_py_enum, text)
    t = re.sub(r"^(\s*)(?:pub )?model (\w+)(?: with [\w, ]+)?:", r"\1@dataclass\n\1class \2:", t, flags=re.M)
    t = re.sub(r"^(\s*)(?:pub )?class (\w+) extends (\w+)(?: with [\w, ]+)?:", r"\1@dataclass\n\1class \2(\3):", t, flags=re.M)
    t = re.sub(r"^(\s*)(?:pub )?class (\w+)(?: with [\w, ]+)?:", r"\1@dataclass\n\1class \2:", t, flags=re.M)
    t = re.sub(r"^(\s*)trait (\w+):", r"\1class \2:", t, flags=re.M)
    t = re.sub(r"^(\s*)(?:mut|let) (\w+)", r"\1\2", t, flags=re.M)
    t = re.sub(r"\(mut self", "(self", t)
    t = re.sub(r"\bmut (\w+): ", r"\1: ", t)  # mut params
    t = re.sub(r"^(\s*)pub def ", r"\1def ", t, flags=re.M)
    t = re.sub(r"^(\s*def \w+\(.*\) -> [^:]+): \.\.\.$", r"\1:\n\1    pass", t, flags=re.M)
    t = re.sub(r"^(\s*)const (\w+)(: [^=]+)? =", r"\1\2 =", t, flags=re.M)
    t = t.replace(".contains(", ".__contains__(")
    t = re.sub(r"\(([A-Za-z_][\w]*(?:, [A-Za-z_][\w]*)*)\) => ", r"lambda \1: ", t)  # closures
    t = re.sub(r"\b([A-Za-z_]\w*)\.(\d+)\b", r"\1[\2]", t)  # tuple fields t.0 -> t[0]
    return t


def pack(units):
    """Return (incan_source, python_source) for a list of units."""
    inc_decls, py_decls, inc_main, py_main = [], [], [], []
    for u in units:
        if u.decls:
            inc_decls.append(u.decls)
            py_decls.append(u.py_decls if u.py_decls is not None else to_python(u.decls))
        inc_main.append(f'println("@@{u.name}")')
        inc_main.append(u.driver)
        py_main.append(f'println("@@{u.name}")')
        py_main.append(u.py_driver if u.py_driver is not None else to_python(u.driver))
    inc = "\n\n\n".join(inc_decls) + "\n\n\ndef main() -> None:\n" + ind("\n".join(inc_main)) + "\n"
    py = PY_PRELUDE + "\n\n" + "\n\n\n".join(py_decls) + "\n\n\ndef main():\n" + ind("\n".join(py_main)) + "\n\n\nmain()\n"
    return inc, py


# ---- placement lifts: the same function as a method of a class / in an imported module -------------------------------
_SINGLE_DEF = re.compile(r"^def (\w+)\(([^)]*)\) -> ([^:]+):\n", re.M)


def liftable(u):
    """Units whose declarations are exactly one plain function (no recursion, no hand-written reference)."""
    if u.py_decls is not None or u.py_driver is not None or u.panics:
        return False
    if len(re.findall(r"^(?:def|model|class|enum|trait|type|const|@|from|import)\b", u.decls, re.M)) != 1:
        return False
    m = _SINGLE_DEF.match(u.decls)
    if not m:
        return False
    name = m.group(1)
    return u.decls.count(name + "(") == 1 and (name + "(") in u.driver


def lift_method(u):
    """def f(params) -> T: body   ==>   class Host_f: v: int / def f(self, params) -> T: body ; calls become Host_f(v=0).f(..)"""
    m = _SINGLE_DEF.match(u.decls)
    name, params, ret = m.group(1), m.group(2), m.group(3)
    body = u.decls[m.end():]
    host = "Host_" + name
    sig = f"    def {name}(self{', ' + params if params.strip() else ''}) -> {ret}:\n"
    decls = f"class {host}:\n    v: int\n\n" + sig + "\n".join(("    " + l if l.strip() else l) for l in body.split("\n"))
    driver = re.sub(r"\b" + re.escape(name) + r"\(", f"{host}(v=0).{name}(", u.driver)
    return Unit(u.name, decls, driver, tags=u.tags + ("lift:method",))


def pack_module(units):
    """The same units with every function living in lib.incn (pub) and imported by the entry file.
    Returns ({file: text}, python_source) - the reference is the single-file program."""
    names = [_SINGLE_DEF.match(u.decls).group(1) for u in units]
    lib = "\n\n\n".join("pub " + u.decls for u in units) + "\n"
    main = []
    for u in units:
        main.append(f'println("@@{u.name}")')
        main.append(u.driver)
    entry = "from semlib import " + ", ".join(names) + "\n\n\ndef main() -> None:\n" + ind("\n".join(main)) + "\n"
    _, py = pack(units)
    return {"prog.incn": entry, "semlib.incn": lib}, py


_TOP_DECL = re.compile(r"^(def|async def|model|class|enum|trait|type|const) (\w+)", re.M)


def module_lift_general(u):
    """Any unit: all its declarations move to semlib.incn (each top-level declaration made `pub`), the entry file imports
    every declared name and keeps only the driver. The reference is the unit's ordinary single-file reference."""
    lib = re.sub(r"^(def|async def|model|class|enum|trait|type|const) ", r"pub \1 ", u.decls, flags=re.M)
    names = [m.group(2) for m in _TOP_DECL.finditer(u.decls)]
    entry = "from semlib import " + ", ".join(names) + "\n\n\ndef main() -> None:\n" + ind(f'println("@@{u.name}")\n' + u.driver) + "\n"
    return {"prog.incn": entry, "semlib.incn": lib + "\n"}


def module_lift_chain(u):
    """Three files: the unit's type declarations (models, classes, enums, traits, newtypes, consts) in semtypes.incn, its
    functions in semlib.incn (which imports every type), the entry file imports both and keeps the driver. None if the unit
    has no function or no type declaration."""
    blocks, cur = [], []
    for line in u.decls.split("\n"):
        if re.match(r"^(def|async def|model|class|enum|trait|type|const|@) ?", line) and cur and not cur[-1].startswith("@") and "".join(cur).strip():
            blocks.append("\n".join(cur).rstrip("\n"))
            cur = []
        cur.append(line)
    if "".join(cur).strip():
        blocks.append("\n".join(cur).rstrip("\n"))
    kind_of = lambda b: next((m.group(1) for m in [re.search(r"^(def|async def|model|class|enum|trait|type|const) ", b, re.M)] if m), None)
    funcs = [b for b in blocks if kind_of(b) in ("def", "async def")]
    types = [b for b in blocks if kind_of(b) not in ("def", "async def", None)]
    if not funcs or not types:
        return None
    pub = lambda b: re.sub(r"^(def|async def|model|class|enum|trait|type|const) ", r"pub \1 ", b, count=1, flags=re.M)
    tnames = [m.group(2) for b in types for m in [_TOP_DECL.search(b)] if m]
    fnames = [m.group(2) for b in funcs for m in [_TOP_DECL.search(b)] if m]
    typelib = "\n\n\n".join(pub(b) for b in types) + "\n"
    funclib = "from semtypes import " + ", ".join(tnames) + "\n\n\n" + "\n\n\n".join(pub(b) for b in funcs) + "\n"
    entry = "from semlib import " + ", ".join(fnames) + "\nfrom semtypes import " + ", ".join(tnames) + "\n\n\ndef main() -> None:\n" + ind(f'println("@@{u.name}")\n' + u.driver) + "\n"
    return {"prog.incn": entry, "semlib.incn": funclib, "semtypes.incn": typelib}


def run_python(py):
    p = subprocess.run([sys.executable, "-c", py], capture_output=True, text=True, timeout=120)
    return p.returncode, p.stdout, p.stderr


def split_frames(stdout):
    frames, cur = {}, None
    for line in stdout.split("\n"):
        if line.startswith("@@"):
            cur = line[2:]
            frames[cur] = []
        elif cur is not None:
            frames[cur].append(line)
    for k in frames:
        while frames[k] and frames[k][-1] == "":
            frames[k].pop()
    return frames


def line_equal(inc, py):
    """Compare one output line of the compiled program with the reference line."""
    if inc == py:
        return True
    # the reference tags floats with F<repr>; the compiled program prints Rust's Display (2.0 -> "2")
    pa, ia = py.split(" "), inc.split(" ")
    if len(pa) != len(ia):
        return False
    for a, b in zip(ia, pa):
        if a == b:
            continue
        if b.startswith("F"):
            try:
                fb, fa = float(b[1:]), float(a)
            except ValueError:
                return False
            if fa == fb or (fb != 0 and abs(fa - fb) <= 1e-12 * abs(fb)):
                if fa == 0 and fb == 0 and (str(a).startswith("-") != b[1:].startswith("-")):
                    return False  # sign of zero is textual
                continue
            return False
        return False
    return True


# =====================================================================================================================
# The corpus
# =====================================================================================================================
INTS = [-7, -1, 0, 1, 2, 3, 7]
SMALL = [-3, -1, 0, 1, 2, 5]


def arith_exprs(depth):
    """Expression texts over int params a, b, c. Parenthesised where the tree needs it, plus redundant-paren variants."""
    leaves = ["a", "b", "c", "2", "3"]
    ops = ["+", "-", "*", "//", "%"]
    out = []
    # depth 1
    for l, o, r in itertools.product(["a", "b"], ops, ["b", "c", "3"]):
        out.append((f"{l} {o} {r}", ("bin", o)))
    if depth >= 2:
        for o1, o2 in itertools.product(ops, ops):
            out.append((f"a {o1} b {o2} c", ("chain", o1, o2)))  # precedence/associativity of the flat chain
            out.append((f"(a {o1} b) {o2} c", ("lparen", o1, o2)))
            out.append((f"a {o1} (b {o2} c)", ("rparen", o1, o2)))
    if depth >= 3:
        for o1, o2, o3 in itertools.product(["+", "-", "*"], ["*", "-", "//"], ["+", "%", "-"]):
            out.append((f"(a {o1} b) {o2} (c {o3} 2)", ("both", o1, o2, o3)))
            out.append((f"a {o1} (b {o2} (c {o3} 2))", ("nest", o1, o2, o3)))
    return out


def slug(prefix, text):
    """Stable unit name derived from the expression text (so that known-finding keys do not depend on list positions)."""
    import zlib

    return f"{prefix}_{zlib.crc32(text.encode()) & 0xFFFFFF:06x}"


def flatten_parens(e):
    return e.replace("(", "").replace(")", "")


def corpus(tier):
    U = []
    thorough = tier == "thorough"
    # ---- arithmetic trees (grouping, precedence, floor semantics) -------------------------------------------------
    for k, (e, sig) in enumerate(arith_exprs(3 if thorough else 2)):
        nm = slug("ar", e)
        args = []
        for a, b, c in [(a, b, c) for a in (-7, 2, 5) for b in (-3, 3) for c in (-2, 4)]:
            try:
                eval(e, {}, {"a": a, "b": b, "c": c})
                eval(flatten_parens(e), {}, {"a": a, "b": b, "c": c})
            except ZeroDivisionError:
                continue  # zero divisors are exercised by the dedicated runtime-error units
            args.append((a, b, c))
        drv = "\n".join(f"println({nm}({a}, {b}, {c}))" for a, b, c in args)
        U.append(Unit(nm, f"def {nm}(a: int, b: int, c: int) -> int:\n    return {e}", drv, tags=("arith",) + sig + (("parens",) if "(" in e else ())))
    # ---- float and mixed arithmetic --------------------------------------------------------------------------------
    fexprs = ["x + y", "x - y", "x * y", "x / y", "x // y", "x % y", "x + n", "n * x", "n / m", "x / n", "n // y", "x % n", "(x + y) * n", "x * (y - n)", "n / (m + 1)", "x ** 2.0", "n ** m"]
    for k, e in enumerate(fexprs):
        nm = slug("fl", e)
        args = [(x, y, n, m) for x in (-1.5, 0.5, 2.0) for y in (0.5, -2.0) for n in (-7, 3) for m in (2, 5)]
        drv = "\n".join(f"println({nm}({x}, {y}, {n}, {m}))" for x, y, n, m in args)
        U.append(Unit(nm, f"def {nm}(x: float, y: float, n: int, m: int) -> float:\n    return {e}", drv, tags=("float", e) + (("parens",) if "(" in e else ())))
    # ---- comparisons and boolean operators ---------------------------------------------------------------------------
    bexprs = ["a < b", "a <= b", "a > b", "a >= b", "a == b", "a != b", "a < b and b < c", "a < b or b < c", "not (a < b)", "(a < b) == (b < c)", "a < b and (b < c or a == c)", "(a < b or b < c) and a != c", "not (a == b) and not (b == c)"]
    for k, e in enumerate(bexprs):
        nm = slug("bo", e)
        args = [(a, b, c) for a in (1, 2) for b in (1, 3) for c in (0, 2, 3)]
        drv = "\n".join(f"println({nm}({a}, {b}, {c}))" for a, b, c in args)
        U.append(Unit(nm, f"def {nm}(a: int, b: int, c: int) -> bool:\n    return {e}", drv, tags=("bool", e) + (("parens",) if "(" in e else ())))
    # ---- evaluation order: operands are calls that print ----------------------------------------------------------
    U.append(
        Unit(
            "evalorder",
            'def eo_t(tag: str, v: int) -> int:\n    println(tag)\n    return v\n\n\ndef eo_b(tag: str, v: bool) -> bool:\n    println(tag)\n    return v',
            'println(eo_t("l", 1) + eo_t("r", 2))\nprintln(eo_t("a", 1) - eo_t("b", 2) * eo_t("c", 3))\nprintln(eo_b("x", False) and eo_b("y", True))\nprintln(eo_b("p", True) or eo_b("q", False))\nprintln(eo_t("f", 1) < eo_t("g", 2))',
            tags=("evalorder",),
        )
    )
    # ---- control flow ------------------------------------------------------------------------------------------------
    U.append(
        Unit(
            "ifchain",
            'def cf_sign(n: int) -> str:\n    if n < 0:\n        return "neg"\n    elif n == 0:\n        return "zero"\n    elif n < 10:\n        return "small"\n    else:\n        return "big"',
            "\n".join(f"println(cf_sign({n}))" for n in (-5, 0, 3, 10, 99)),
            tags=("if", "elif", "else"),
        )
    )
    U.append(
        Unit(
            "whileloop",
            "def cf_collatz(n: int) -> int:\n    mut steps = 0\n    mut v = n\n    while v != 1:\n        if v % 2 == 0:\n            v = v // 2\n        else:\n            v = 3 * v + 1\n        steps += 1\n    return steps",
            "\n".join(f"println(cf_collatz({n}))" for n in (1, 2, 3, 7, 27)),
            tags=("while", "mut", "reassign-nested"),
        )
    )
    U.append(
        Unit(
            "breakcontinue",
            "def cf_bc(limit: int) -> int:\n    mut total = 0\n    mut i = 0\n    while True:\n        i += 1\n        if i > limit:\n            break\n        if i % 3 == 0:\n            continue\n        total += i\n    return total",
            "\n".join(f"println(cf_bc({n}))" for n in (0, 1, 5, 10)),
            tags=("break", "continue"),
        )
    )
    U.append(
        Unit(
            "forrange",
            "def cf_fr(a: int, b: int, s: int) -> int:\n    mut acc = 0\n    for i in range(a, b, s):\n        acc = acc * 10 + i\n    return acc",
            "\n".join(f"println(cf_fr({a}, {b}, {s}))" for a, b, s in ((0, 5, 1), (5, 0, -1), (0, 10, 3), (10, 0, -4), (3, 3, 1), (0, 5, -1))),
            tags=("for", "range3"),
        )
    )
    U.append(
        Unit(
            "fornested",
            "def cf_nest(n: int) -> int:\n    mut count = 0\n    for i in range(n):\n        for j in range(n):\n            if i == j:\n                continue\n            if i + j > n:\n                break\n            count += i * j\n    return count",
            "\n".join(f"println(cf_nest({n}))" for n in (0, 1, 3, 5)),
            tags=("for", "nested", "break", "continue"),
        )
    )
    U.append(
        Unit(
            "forlist",
            "def cf_fl(xs: List[int]) -> int:\n    mut best = -999\n    for x in xs:\n        if x > best:\n            best = x\n    return best",
            "println(cf_fl([3, 9, 2]))\nprintln(cf_fl([]))\nprintln(cf_fl([-5]))",
            tags=("for", "list"),
        )
    )
    U.append(
        Unit(
            "forstr",
            'def cf_fs(s: str) -> int:\n    mut n = 0\n    for ch in s:\n        if ch == "l":\n            n += 1\n    return n',
            'println(cf_fs("hello"))\nprintln(cf_fs(""))\nprintln(cf_fs("héllo wörld"))',
            tags=("for", "str"),
        )
    )
    # ---- scoping (documented rules) --------------------------------------------------------------------------------
    U.append(
        Unit(
            "scope_reassign_outer",
            "def sc_a() -> int:\n    mut x = 1\n    if True:\n        x = 2\n    return x",
            "println(sc_a())",
            tags=("scope",),
        )
    )
    U.append(
        Unit(
            "scope_shadow_block",
            "def sc_b() -> int:\n    let x = 1\n    if True:\n        let x = 2\n        println(x)\n    return x",
            "println(sc_b())",
            py_decls="def sc_b():\n    x = 1\n    if True:\n        x_1 = 2\n        println(x_1)\n    return x",
            tags=("scope", "shadow"),
        )
    )
    U.append(
        Unit(
            "scope_shadow_vs_reassign",
            "def sc_c() -> int:\n    mut x = 10\n    if True:\n        x = 11\n        mut x = 12\n        x = 13\n        println(x)\n    return x",
            "println(sc_c())",
            py_decls="def sc_c():\n    x = 10\n    if True:\n        x = 11\n        x_1 = 12\n        x_1 = 13\n        println(x_1)\n    return x",
            tags=("scope", "shadow"),
        )
    )
    U.append(
        Unit(
            "scope_loop_shadow",
            "def sc_d(n: int) -> int:\n    mut total = 0\n    for i in range(n):\n        let total2 = total + i\n        total = total2\n    return total",
            "println(sc_d(4))",
            tags=("scope",),
        )
    )
    # ---- compound assignment on variables, fields, indices ---------------------------------------------------------
    U.append(
        Unit(
            "compound_var",
            "def ca_v(a: int, b: int) -> int:\n    mut x = a\n    x += b\n    x -= 1\n    x *= 3\n    x //= 2\n    x %= 7\n    return x",
            "\n".join(f"println(ca_v({a}, {b}))" for a in (-7, 0, 5) for b in (-2, 3)),
            tags=("compound",),
        )
    )
    U.append(
        Unit(
            "compound_float",
            "def ca_f(a: float, b: int) -> float:\n    mut x = a\n    x += b\n    x /= 2\n    x *= 1.5\n    x -= 0.25\n    return x",
            "\n".join(f"println(ca_f({a}, {b}))" for a in (-1.5, 2.0) for b in (-2, 3)),
            tags=("compound", "float"),
        )
    )
    U.append(
        Unit(
            "compound_field",
            "class CaBox:\n    v: int\n    w: int\n\n    def work(mut self, a: int, b: int) -> int:\n        self.v += a\n        self.v -= a - b\n        self.w *= a + b\n        return self.v * 100 + self.w",
            "mut cb = CaBox(v=10, w=2)\nprintln(cb.work(3, 1))\nprintln(cb.work(-2, 5))\nprintln(cb.v)",
            tags=("compound", "field", "parens"),
        )
    )
    U.append(
        Unit(
            "compound_index",
            "def ca_i(a: int, b: int) -> int:\n    mut xs = [1, 2, 3]\n    xs[0] += a\n    xs[1] -= a - b\n    xs[2] *= a + b\n    return xs[0] * 10000 + xs[1] * 100 + xs[2]",
            "println(ca_i(3, 1))\nprintln(ca_i(-2, 5))",
            tags=("compound", "index", "parens"),
        )
    )
    # ---- collections -----------------------------------------------------------------------------------------------
    U.append(
        Unit(
            "list_ops",
            "def co_l(n: int) -> int:\n    mut xs: List[int] = []\n    for i in range(n):\n        xs.append(i * i)\n    mut acc = len(xs)\n    for x in xs:\n        acc += x\n    if len(xs) > 2:\n        acc += xs[-1] + xs[1]\n    return acc",
            "\n".join(f"println(co_l({n}))" for n in (0, 1, 3, 6)),
            tags=("list", "append", "len", "index"),
        )
    )
    U.append(
        Unit(
            "list_slice",
            "def co_s(a: int, b: int, c: int) -> int:\n    xs = [10, 20, 30, 40, 50]\n    ys = xs[a:b:c]\n    mut acc = 0\n    for y in ys:\n        acc = acc * 100 + y\n    return acc",
            "\n".join(f"println(co_s({a}, {b}, {c}))" for a, b, c in ((0, 5, 1), (1, 4, 2), (4, 0, -1), (-2, 5, 1), (3, -5, -1), (0, 99, 3))),
            tags=("list", "slice"),
        )
    )
    # every (start, stop, step) over bounds on both sides of the length, for the three slice spellings, on lists and strings
    _acc = "    mut acc = 7\n    for y in ys:\n        acc = acc * 10 + y\n    return acc"
    for nm, params, sl, loops, call in (
        ("list_slice_grid", "a: int, b: int, c: int", "xs[a:b:c]", f"for a in [-7, -6, -5, -4, -1, 0, 2, 4, 5, 7]:\n    for b in [-7, -6, -5, -4, -1, 0, 2, 4, 5, 7]:\n        for c in [-3, -2, -1, 1, 2, 3]:\n            ", "(a, b, c)"),
        ("list_slice_grid_nostop", "a: int, c: int", "xs[a::c]", f"for a in [-7, -6, -5, -4, -1, 0, 2, 4, 5, 7]:\n    for c in [-3, -2, -1, 1, 2, 3]:\n        ", "(a, c)"),
        ("list_slice_grid_nostart", "b: int, c: int", "xs[:b:c]", f"for b in [-7, -6, -5, -4, -1, 0, 2, 4, 5, 7]:\n    for c in [-3, -2, -1, 1, 2, 3]:\n        ", "(b, c)"),
        ("list_slice_grid_nostep", "a: int, b: int", "xs[a:b]", f"for a in [-7, -6, -5, -4, -1, 0, 2, 4, 5, 7]:\n    for b in [-7, -6, -5, -4, -1, 0, 2, 4, 5, 7]:\n        ", "(a, b)"),
    ):
        U.append(Unit(nm, f"def {nm}({params}) -> int:\n    xs = [1, 2, 3, 4, 5]\n    ys = {sl}\n{_acc}".replace("{nm}", nm).replace("{params}", params).replace("{sl}", sl).replace("{_acc}", _acc), f"{loops}println({nm}{call})".replace("{loops}", loops).replace("{nm}", nm).replace("{call}", call), tags=("list", "slice", "grid", nm)))
    for nm, params, sl, loops, call in (
        ("str_slice_grid", "a: int, b: int, c: int", "s[a:b:c]", f"for a in [-7, -6, -5, -4, -1, 0, 2, 4, 5, 7]:\n    for b in [-7, -6, -5, -4, -1, 0, 2, 4, 5, 7]:\n        for c in [-3, -2, -1, 1, 2, 3]:\n            ", "(a, b, c)"),
        ("str_slice_grid_nostop", "a: int, c: int", "s[a::c]", f"for a in [-7, -6, -5, -4, -1, 0, 2, 4, 5, 7]:\n    for c in [-3, -2, -1, 1, 2, 3]:\n        ", "(a, c)"),
        ("str_slice_grid_nostart", "b: int, c: int", "s[:b:c]", f"for b in [-7, -6, -5, -4, -1, 0, 2, 4, 5, 7]:\n    for c in [-3, -2, -1, 1, 2, 3]:\n        ", "(b, c)"),
    ):
        U.append(Unit(nm, f"def {nm}({params}) -> str:\n    s = \"abcdé\"\n    return \"<\" + {sl} + \">\"".replace("{nm}", nm).replace("{params}", params).replace("{sl}", sl), f"{loops}println({nm}{call})".replace("{loops}", loops).replace("{nm}", nm).replace("{call}", call), tags=("str", "slice", "grid", nm)))
    U.append(
        Unit(
            "listcomp",
            "def co_c(n: int) -> int:\n    sq = [i * i for i in range(n)]\n    ev = [x for x in sq if x % 2 == 0]\n    mut acc = len(ev)\n    for x in ev:\n        acc += x\n    return acc",
            "\n".join(f"println(co_c({n}))" for n in (0, 1, 5)),
            tags=("listcomp", "filter"),
        )
    )
    U.append(
        Unit(
            "dict_ops",
            'def co_d(k: str) -> int:\n    mut d: Dict[str, int] = {"a": 1, "b": 2}\n    d["c"] = 3\n    d["a"] = 10\n    if k in d:\n        return d[k] + len(d)\n    return -1',
            "\n".join(f'println(co_d("{k}"))' for k in ("a", "b", "c", "zz")),
            tags=("dict", "in", "index-assign"),
        )
    )
    U.append(
        Unit(
            "in_list",
            "def co_in(v: int) -> bool:\n    xs = [1, 3, 5]\n    return v in xs",
            "println(co_in(3))\nprintln(co_in(4))",
            tags=("in", "list"),
        )
    )
    U.append(
        Unit(
            "not_in_list",
            "def co_nin(v: int) -> bool:\n    xs = [1, 3, 5]\n    return v not in xs",
            "println(co_nin(3))\nprintln(co_nin(4))",
            tags=("not-in", "list"),
        )
    )
    # ---- strings -----------------------------------------------------------------------------------------------------
    U.append(
        Unit(
            "str_ops",
            'def st_o(s: str, t: str) -> str:\n    u = s + "-" + t\n    if s < t:\n        return u.upper()\n    return u.lower()',
            "\n".join(f'println(st_o("{a}", "{b}"))' for a, b in (("ab", "cd"), ("Zz", "Aa"), ("", "x"), ("é", "e"))),
            tags=("str", "concat", "compare", "upper"),
        )
    )
    U.append(
        Unit(
            "str_index_slice",
            "def st_i(s: str, i: int, a: int, b: int) -> str:\n    return s[i] + s[a:b] + s[: :-1]",
            "\n".join(f'println(st_i("{s}", {i}, {a}, {b}))' for s, i, a, b in (("hello", 1, 1, 3), ("héllo wörld", -1, 2, 8), ("abc", -3, -2, 99))),
            tags=("str", "index", "slice"),
        )
    )
    U.append(
        Unit(
            "str_slice_colons",
            "def st_c(s: str) -> str:\n    return s[::-1] + s[::2] + s[1::2]",
            'println(st_c("hello"))\nprintln(st_c("héllo wörld"))\nprintln(st_c(""))',
            tags=("str", "slice", "double-colon"),
        )
    )
    U.append(
        Unit(
            "str_methods",
            'def st_m(s: str) -> str:\n    t = s.strip()\n    parts = t.split(",")\n    j = "+".join(parts)\n    return j.replace("a", "A") + str(len(parts))',
            'println(st_m("  a,b,ca  "))\nprintln(st_m("x"))',
            tags=("str", "methods"),
        )
    )
    U.append(
        Unit(
            "str_in",
            'def st_in(s: str) -> bool:\n    return "ll" in s',
            'println(st_in("hello"))\nprintln(st_in("world"))',
            tags=("str", "in"),
        )
    )
    U.append(
        Unit(
            "fstring",
            'def st_f(name: str, n: int) -> str:\n    return f"{name} has {n} items, next={n + 1} {{literal}}"',
            'println(st_f("bob", 3))\nprintln(st_f("héllo", -1))',
            tags=("fstring",),
        )
    )
    U.append(
        Unit(
            "fstring_parts",
            'def st_g(a: int, b: int) -> str:\n    return f"{a}{b}|{a + b}|{a * b}"',
            "println(st_g(2, 3))\nprintln(st_g(-1, 10))",
            tags=("fstring", "adjacent-parts"),
        )
    )
    # `{x:?}` is the documented debug representation (reference/strings.md, derives/string_representation.md):
    # a model prints as `Name { field: value, ... }`, a string quoted; the reference is hand-written from those pages
    U.append(
        Unit(
            "fstring_debug",
            '@derive(Debug)\nmodel DbgPoint:\n    x: int\n    y: int\n\n\ndef st_dbg(s: str, n: int) -> str:\n    p = DbgPoint(x=n, y=20)\n    return f"{p:?}|{s:?}|{s}|{n:?}"',
            'println(st_dbg("bob", 10))\nprintln(st_dbg("", -1))',
            py_decls='def st_dbg(s, n):\n    return "DbgPoint { x: %d, y: 20 }|\\"%s\\"|%s|%d" % (n, s, s, n)',
            tags=("fstring", "debug-spec"),
        )
    )
    # ---- Option / Result / match ---------------------------------------------------------------------------------------
    U.append(
        Unit(
            "option_match",
            "def om_find(xs: List[int], v: int) -> Option[int]:\n    mut i = 0\n    for x in xs:\n        if x == v:\n            return Some(i)\n        i += 1\n    return None\n\n\ndef om_show(o: Option[int]) -> int:\n    match o:\n        case Some(i):\n            return i\n        case None:\n            return -1",
            "println(om_show(om_find([5, 6, 7], 6)))\nprintln(om_show(om_find([5, 6, 7], 9)))\nprintln(om_show(om_find([], 1)))",
            tags=("option", "match"),
        )
    )
    U.append(
        Unit(
            "result_match",
            'def rm_div(a: int, b: int) -> Result[int, str]:\n    if b == 0:\n        return Err("div by zero")\n    return Ok(a // b)\n\n\ndef rm_show(r: Result[int, str]) -> str:\n    match r:\n        case Ok(v):\n            return f"ok {v}"\n        case Err(e):\n            return f"err {e}"',
            "println(rm_show(rm_div(7, 2)))\nprintln(rm_show(rm_div(-7, 2)))\nprintln(rm_show(rm_div(1, 0)))",
            tags=("result", "match"),
        )
    )
    U.append(
        Unit(
            "try_operator",
            'def tq_parse(n: int) -> Result[int, str]:\n    if n < 0:\n        return Err("negative")\n    return Ok(n * 2)\n\n\ndef tq_sum(a: int, b: int) -> Result[int, str]:\n    x = tq_parse(a)?\n    y = tq_parse(b)?\n    return Ok(x + y)\n\n\ndef tq_show(r: Result[int, str]) -> str:\n    match r:\n        case Ok(v):\n            return f"ok {v}"\n        case Err(e):\n            return f"err {e}"',
            "println(tq_show(tq_sum(1, 2)))\nprintln(tq_show(tq_sum(-1, 2)))\nprintln(tq_show(tq_sum(1, -2)))",
            py_decls='def tq_parse(n):\n    if n < 0:\n        return Err("negative")\n    return Ok(n * 2)\n\n\ndef tq_sum(a, b):\n    x = tq_parse(a)\n    if isinstance(x, Err):\n        return x\n    x = x.v\n    y = tq_parse(b)\n    if isinstance(y, Err):\n        return y\n    y = y.v\n    return Ok(x + y)\n\n\ndef tq_show(r):\n    match r:\n        case Ok(v):\n            return f"ok {v}"\n        case Err(e):\n            return f"err {e}"',
            tags=("try", "result"),
        )
    )
    U.append(
        Unit(
            "match_literals_guards",
            'def mg_cls(n: int) -> str:\n    match n:\n        case 0:\n            return "zero"\n        case 1:\n            return "one"\n        case k if k < 0:\n            return "neg"\n        case k if k % 2 == 0:\n            return "even"\n        case _:\n            return "odd"',
            "\n".join(f"println(mg_cls({n}))" for n in (0, 1, -4, 6, 7)),
            tags=("match", "literal", "guard"),
        )
    )
    U.append(
        Unit(
            "match_order",
            'def mo_first(n: int) -> str:\n    match n:\n        case k if k > 5:\n            return "gt5"\n        case k if k > 2:\n            return "gt2"\n        case 3:\n            return "three"\n        case _:\n            return "rest"',
            "\n".join(f"println(mo_first({n}))" for n in (9, 4, 3, 1)),
            tags=("match", "arm-order"),
        )
    )
    U.append(
        Unit(
            "match_str_bool",
            'def ms_s(s: str, f: bool) -> int:\n    match s:\n        case "a":\n            return 1\n        case "b":\n            match f:\n                case True:\n                    return 2\n                case False:\n                    return 3\n        case _:\n            return 0',
            'println(ms_s("a", True))\nprintln(ms_s("b", True))\nprintln(ms_s("b", False))\nprintln(ms_s("zz", False))',
            tags=("match", "str", "bool", "nested"),
        )
    )
    U.append(
        Unit(
            "match_tuple",
            'def mt_t(a: int, b: int) -> str:\n    pair = (a, b)\n    match pair:\n        case (0, 0):\n            return "origin"\n        case (0, y):\n            return f"y{y}"\n        case (x, 0):\n            return f"x{x}"\n        case _:\n            return "plane"',
            "println(mt_t(0, 0))\nprintln(mt_t(0, 5))\nprintln(mt_t(4, 0))\nprintln(mt_t(1, 1))",
            tags=("match", "tuple"),
        )
    )
    U.append(
        Unit(
            "match_nested_option",
            "def mn_n(o: Option[Option[int]]) -> int:\n    match o:\n        case Some(Some(v)):\n            return v\n        case Some(None):\n            return -1\n        case None:\n            return -2",
            "println(mn_n(Some(Some(4))))\nprintln(mn_n(Some(None)))\nprintln(mn_n(None))",
            tags=("match", "option", "nested"),
        )
    )
    U.append(
        Unit(
            "enum_data",
            "enum Shape:\n    Circle(int)\n    Rect(int, int)\n    Dot\n\n\ndef en_area(s: Shape) -> int:\n    match s:\n        case Shape.Circle(r):\n            return 3 * r * r\n        case Shape.Rect(w, h):\n            return w * h\n        case Shape.Dot:\n            return 0",
            "println(en_area(Shape.Circle(2)))\nprintln(en_area(Shape.Rect(3, 4)))\nprintln(en_area(Shape.Dot))",
            tags=("enum", "match", "qualified"),
        )
    )
    U.append(
        Unit(
            "enum_arrow",
            'enum Light:\n    Red\n    Green\n\n\ndef en_l(l: Light) -> str:\n    return match l:\n        Light.Red => "stop"\n        Light.Green => "go"',
            "println(en_l(Light.Red))\nprintln(en_l(Light.Green))",
            py_decls='class Light:\n    pass\n\nclass _R(Light):\n    pass\n\nclass _G(Light):\n    pass\n\nLight.Red = _R()\nLight.Green = _G()\n\n\ndef en_l(l):\n    return "stop" if l is Light.Red else "go"',
            tags=("enum", "match-expr", "arrow"),
        )
    )
    # ---- models / classes / traits ----------------------------------------------------------------------------------
    U.append(
        Unit(
            "model_methods",
            "model MPoint:\n    x: int\n    y: int = 7\n\n    def norm1(self) -> int:\n        return self.x + self.y\n\n    def scaled(self, k: int) -> MPoint:\n        return MPoint(x=self.x * k, y=self.y * k)",
            "mp = MPoint(x=2)\nprintln(mp.norm1())\nmq = mp.scaled(3)\nprintln(mq.x)\nprintln(mq.y)\nprintln(MPoint(x=1, y=1).norm1())",
            tags=("model", "default", "method"),
        )
    )
    U.append(
        Unit(
            "class_mut_self",
            "class CCounter:\n    n: int\n\n    def bump(mut self, by: int) -> None:\n        self.n = self.n + by\n\n    def get(self) -> int:\n        return self.n",
            "mut cc = CCounter(n=1)\ncc.bump(2)\ncc.bump(5)\nprintln(cc.get())",
            tags=("class", "mut-self"),
        )
    )
    U.append(
        Unit(
            "inheritance",
            'class IAnimal:\n    name: str\n\n    def speak(self) -> str:\n        return "..."\n\n    def intro(self) -> str:\n        return self.name\n\n\nclass IDog extends IAnimal:\n    tricks: int\n\n    def speak(self) -> str:\n        return "woof"',
            'd = IDog(name="rex", tricks=2)\nprintln(d.speak())\nprintln(d.intro())\nprintln(d.tricks)\na = IAnimal(name="cat")\nprintln(a.speak())',
            tags=("class", "extends", "override"),
        )
    )
    U.append(
        Unit(
            "static_methods",
            "class SCounter:\n    n: int\n\n    def zero() -> int:\n        return 0\n\n    def twice(k: int) -> int:\n        return k * 2\n\n    def total(self) -> int:\n        return self.n + SCounter.twice(1)\n\n\ndef sm_use(a: int) -> int:\n    return SCounter.twice(a) + SCounter.zero()",
            "println(sm_use(4))\nprintln(SCounter.twice(5))\nprintln(SCounter(n=1).total())",
            py_decls="@dataclass\nclass SCounter:\n    n: int\n\n    @staticmethod\n    def zero():\n        return 0\n\n    @staticmethod\n    def twice(k):\n        return k * 2\n\n    def total(self):\n        return self.n + SCounter.twice(1)\n\n\ndef sm_use(a):\n    return SCounter.twice(a) + SCounter.zero()",
            tags=("class", "static-method", "static-call-inside-function-and-method"),
        )
    )
    U.append(
        Unit(
            "named_args_inherited",
            "class NBase:\n    k: int\n\n    def blend(self, value: int, weight: int) -> int:\n        return value * 10 + weight + self.k\n\n    def wrap(self, left: str, right: str) -> str:\n        return f\"{left}<{self.k}>{right}\"\n\n\n"
            "class NMid extends NBase:\n    m: int\n\n    def mid_only(self, a: int, b: int) -> int:\n        return a * 100 + b\n\n\nclass NLeaf extends NMid:\n    l: int\n\n\nclass NDeep extends NLeaf:\n    d: int",
            'leaf = NLeaf(k=0, m=1, l=2)\ndeep = NDeep(k=0, m=1, l=2, d=3)\nmid = NMid(k=0, m=1)\nprintln(leaf.blend(weight=3, value=4))\nprintln(leaf.wrap(right="]", left="["))\nprintln(deep.blend(weight=5, value=6))\nprintln(deep.mid_only(b=7, a=8))\n'
            "println(mid.blend(weight=1, value=2))\nprintln(leaf.mid_only(b=1, a=2))\nprintln(leaf.blend(4, weight=3))",
            py_decls="@dataclass\nclass NBase:\n    k: int\n\n    def blend(self, value, weight):\n        return value * 10 + weight + self.k\n\n    def wrap(self, left, right):\n        return f\"{left}<{self.k}>{right}\"\n\n\n"
            "@dataclass\nclass NMid(NBase):\n    m: int\n\n    def mid_only(self, a, b):\n        return a * 100 + b\n\n\n@dataclass\nclass NLeaf(NMid):\n    l: int\n\n\n@dataclass\nclass NDeep(NLeaf):\n    d: int",
            tags=("class", "extends", "named-arg", "method-declared-two-or-more-levels-up"),
        )
    )
    # writes through assignment targets with several index / field steps, read back afterwards
    U.append(
        Unit(
            "nested_index_writes",
            "model NCell:\n    hits: int\n    tags: List[int]\n\n\ndef nw_cube(i: int, j: int, k: int, v: int) -> int:\n    mut cube = [[[0, 0], [0, 0]], [[0, 0], [0, 0]]]\n    cube[i][j][k] = v\n    cube[0][0][0] += 1\n    mut acc = 0\n    for plane in cube:\n        for row in plane:\n            for c in row:\n                acc = acc * 3 + c\n    return acc\n\n\n"
            "def nw_board(i: int, j: int, v: int) -> int:\n    mut board = [[NCell(hits=0, tags=[0, 0]), NCell(hits=1, tags=[1, 1])], [NCell(hits=2, tags=[2, 2]), NCell(hits=3, tags=[3, 3])]]\n    board[i][j].hits = v\n    board[i][j].tags[1] = v + 1\n    board[1][0].hits += 10\n    return board[0][0].hits * 1000 + board[0][1].hits * 100 + board[1][0].hits * 10 + board[1][1].hits + board[i][j].tags[1] * 100000\n\n\n"
            "def nw_grid(i: int, j: int, v: int) -> int:\n    mut grid = [[0, 0, 0], [0, 0, 0]]\n    grid[i][j] = v\n    grid[1][2] += 4\n    return grid[0][0] + grid[0][1] * 10 + grid[0][2] * 100 + grid[1][0] * 1000 + grid[1][1] * 10000 + grid[1][2] * 100000",
            "\n".join(f"println(nw_cube({i}, {j}, {k}, 5))" for i in (0, 1) for j in (0, 1) for k in (0, 1)) + "\n" + "\n".join(f"println(nw_board({i}, {j}, 7))" for i in (0, 1) for j in (0, 1)) + "\n" + "\n".join(f"println(nw_grid({i}, {j}, 9))" for i in (0, 1) for j in (0, 2)),
            tags=("lvalue", "nested-index-write", "three-levels", "field-of-nested-element"),
        )
    )
    # functions that construct / match types declared elsewhere in the unit: defaults omitted, named arguments out of order,
    # unit and data variants, methods - the placement lifts move the types and the functions into different modules
    U.append(
        Unit(
            "construct_across",
            'model XPoint:\n    x: int\n    y: int\n    z: int = 9\n\n\nenum XKind:\n    Flat\n    Tall(int)\n\n\nclass XRect:\n    w: int\n    h: int\n    label: str = "r"\n\n    def area(self) -> int:\n        return self.w * self.h\n\n\n'
            "def xc_shift(d: int) -> XPoint:\n    return XPoint(y=d + 1, x=d)\n\n\ndef xc_rect(a: int, b: int) -> XRect:\n    return XRect(h=b, w=a)\n\n\ndef xc_kind(r: XRect) -> XKind:\n    if r.h > r.w:\n        return XKind.Tall(r.h)\n    return XKind.Flat\n\n\n"
            "def xc_show(k: XKind) -> int:\n    match k:\n        case XKind.Flat:\n            return 0\n        case XKind.Tall(h):\n            return h\n\n\ndef xc_total(r: XRect, p: XPoint) -> int:\n    return r.area() + p.x * 100 + p.y * 10 + p.z",
            "println(xc_total(xc_rect(3, 2), xc_shift(1)))\nprintln(xc_show(xc_kind(xc_rect(2, 5))))\nprintln(xc_show(xc_kind(xc_rect(5, 2))))",
            py_decls='@dataclass\nclass XPoint:\n    x: int\n    y: int\n    z: int = 9\n\n\nclass XKind:\n    pass\n\n\n@dataclass\nclass XRect:\n    w: int\n    h: int\n    label: str = "r"\n\n    def area(self):\n        return self.w * self.h\n\n\n'
            "def xc_shift(d):\n    return XPoint(y=d + 1, x=d)\n\n\ndef xc_rect(a, b):\n    return XRect(h=b, w=a)\n\n\ndef xc_kind(r):\n    return (\"Tall\", r.h) if r.h > r.w else (\"Flat\",)\n\n\ndef xc_show(k):\n    return 0 if k[0] == \"Flat\" else k[1]\n\n\ndef xc_total(r, p):\n    return r.area() + p.x * 100 + p.y * 10 + p.z",
            tags=("model", "class", "enum", "defaults-omitted", "named-args-out-of-order", "construct-in-function"),
        )
    )
    # ---- feature interactions: inheritance x traits (the member that satisfies the trait lives in an ancestor) -------------
    U.append(
        Unit(
            "inherit_trait_method",
            'trait XDescribable:\n    def describe(self) -> str: ...\n\n\nclass XBase:\n    name: str\n\n    def describe(self) -> str:\n        return f"base {self.name}"\n\n\nclass XChild extends XBase with XDescribable:\n    extra: int',
            'c = XChild(name="item", extra=3)\nprintln(c.describe())\nprintln(c.extra)',
            py_decls='@dataclass\nclass XBase:\n    name: str\n\n    def describe(self):\n        return "base " + self.name\n\n\n@dataclass\nclass XChild(XBase):\n    extra: int',
            tags=("class", "extends", "trait", "inherited-method-satisfies-trait"),
        )
    )
    U.append(
        Unit(
            "inherit_requires_field",
            '@requires(label: str)\ntrait XLabeled:\n    def show(self) -> str:\n        return f"<{self.label}>"\n\n\nclass XLBase:\n    label: str\n\n\nclass XLChild extends XLBase with XLabeled:\n    n: int',
            'c = XLChild(label="tag", n=1)\nprintln(c.show())\nprintln(c.n)',
            py_decls='class XLabeled:\n    def show(self):\n        return "<" + self.label + ">"\n\n\n@dataclass\nclass XLBase:\n    label: str\n\n\n@dataclass\nclass XLChild(XLBase, XLabeled):\n    n: int',
            tags=("class", "extends", "trait", "requires", "inherited-field-satisfies-requires"),
        )
    )
    U.append(
        Unit(
            "inherit_trait_default_calls_inherited",
            'trait XGreeter:\n    def who(self) -> str: ...\n\n    def greet(self) -> str:\n        return f"hi {self.who()}"\n\n\nclass XGBase:\n    n: str\n\n    def who(self) -> str:\n        return f"{self.n}"\n\n\nclass XGMid extends XGBase:\n    m: int\n\n\nclass XGLeaf extends XGMid with XGreeter:\n    k: int',
            'c = XGLeaf(n="ann", m=1, k=2)\nprintln(c.greet())\nprintln(c.m + c.k)',
            py_decls='class XGreeter:\n    def greet(self):\n        return "hi " + self.who()\n\n\n@dataclass\nclass XGBase:\n    n: str\n\n    def who(self):\n        return self.n\n\n\n@dataclass\nclass XGMid(XGBase):\n    m: int\n\n\n@dataclass\nclass XGLeaf(XGMid, XGreeter):\n    k: int',
            tags=("class", "extends", "trait", "default-method", "three-levels"),
        )
    )
    U.append(
        Unit(
            "inherit_trait_on_parent",
            'trait XNamed:\n    def tag(self) -> str: ...\n\n\nclass XNBase with XNamed:\n    n: str\n\n    def tag(self) -> str:\n        return f"p:{self.n}"\n\n\nclass XNChild extends XNBase:\n    k: int\n\n    def tag(self) -> str:\n        return f"c:{self.n}"',
            'p = XNBase(n="a")\nc = XNChild(n="b", k=1)\nprintln(p.tag())\nprintln(c.tag())',
            py_decls='@dataclass\nclass XNBase:\n    n: str\n\n    def tag(self):\n        return "p:" + self.n\n\n\n@dataclass\nclass XNChild(XNBase):\n    k: int\n\n    def tag(self):\n        return "c:" + self.n',
            tags=("class", "extends", "trait", "trait-on-parent", "override"),
        )
    )
    U.append(
        Unit(
            "trait_default",
            'trait TGreeter:\n    def name(self) -> str: ...\n\n    def greet(self) -> str:\n        return "hi " + self.name()\n\n\nclass TPerson with TGreeter:\n    n: str\n\n    def name(self) -> str:\n        return self.n',
            'println(TPerson(n="ann").greet())',
            py_decls='class TGreeter:\n    def greet(self):\n        return "hi " + self.name()\n\n\n@dataclass\nclass TPerson(TGreeter):\n    n: str\n\n    def name(self):\n        return self.n',
            tags=("trait", "default-method"),
        )
    )
    U.append(
        Unit(
            "newtype_plain",
            "type NUid = newtype int\n\n\ndef nt_next(u: NUid) -> NUid:\n    return NUid(u.0 + 1)",
            "println(nt_next(NUid(41)).0)",
            py_decls="class NUid:\n    def __init__(self, v):\n        self.v = v\n\n\ndef nt_next(u):\n    return NUid(u.v + 1)",
            py_driver="println(nt_next(NUid(41)).v)",
            tags=("newtype",),
        )
    )
    U.append(
        Unit(
            "closure",
            "def cl_apply(k: int) -> int:\n    add = (x) => x + k\n    mul = (x, y) => x * y\n    return mul(add(1), add(2))",
            "println(cl_apply(3))\nprintln(cl_apply(-1))",
            py_decls="def cl_apply(k):\n    add = lambda x: x + k\n    mul = lambda x, y: x * y\n    return mul(add(1), add(2))",
            tags=("closure",),
        )
    )
    U.append(
        Unit(
            "const_use",
            'const CK: int = 6 * 7\nconst CS: str = "ab" + "cd"\n\n\ndef cu_f(n: int) -> int:\n    return CK + n',
            "println(cu_f(1))\nprintln(CS)",
            tags=("const",),
        )
    )
    U.append(
        Unit(
            "recursion",
            "def rc_fib(n: int) -> int:\n    if n < 2:\n        return n\n    return rc_fib(n - 1) + rc_fib(n - 2)",
            "\n".join(f"println(rc_fib({n}))" for n in (0, 1, 2, 10)),
            tags=("recursion",),
        )
    )
    U.append(
        Unit(
            "default_args",
            "def da_f(a: int, b: int = 10) -> int:\n    return a * 100 + b",
            "println(da_f(1))\nprintln(da_f(1, 2))",
            tags=("default-arg",),
        )
    )
    U.append(
        Unit(
            "named_args",
            "def na_f(a: int, b: int) -> int:\n    return a * 100 + b",
            "println(na_f(a=1, b=2))\nprintln(na_f(b=1, a=2))",
            tags=("named-arg",),
        )
    )
    U.append(
        Unit(
            "tuple_unpack",
            "def tu_f(a: int, b: int) -> int:\n    pair = (a + 1, b * 2)\n    x, y = pair\n    return x * 100 + y",
            "println(tu_f(1, 2))",
            tags=("tuple-unpack",),
        )
    )
    U.append(
        Unit(
            "print_kinds",
            "",
            'println(42)\nprintln(-7)\nprintln(True)\nprintln(False)\nprintln("text")\nprintln(1.5)\nprintln(2.0)\nprintln(-0.25)\nprintln("héllo 𝄞")',
            tags=("print",),
        )
    )
    # ---- conservative variants of units whose first formulation does not build on the pinned tree (those stay as C02 witnesses)
    U.append(
        Unit(
            "str_ops_b",
            'def st_ob(s: str, t: str) -> str:\n    u = f"{s}-{t}"\n    if s < t:\n        return u.upper()\n    return u.lower()',
            "\n".join(f'println(st_ob("{a}", "{b}"))' for a, b in (("ab", "cd"), ("Zz", "Aa"), ("", "x"), ("é", "e"))),
            tags=("str", "fstring-concat", "compare", "upper", "lower"),
        )
    )
    U.append(
        Unit(
            "str_index_b",
            "def st_ib(s: str, i: int) -> str:\n    return s[i]",
            "\n".join(f'println(st_ib("{s}", {i}))' for s, i in (("hello", 1), ("héllo wörld", -1), ("abc", -3), ("𝄞x", 0))),
            tags=("str", "index"),
        )
    )
    U.append(
        Unit(
            "str_slice_b",
            "def st_sb(s: str, a: int, b: int) -> str:\n    return s[a:b]",
            "\n".join(f'println(st_sb("{s}", {a}, {b}))' for s, a, b in (("hello", 1, 3), ("héllo wörld", 2, 8), ("abc", -2, 99), ("abc", 2, 1))),
            tags=("str", "slice"),
        )
    )
    U.append(
        Unit(
            "str_slice_step_b",
            "def st_tb(s: str, c: int) -> str:\n    return s[::c]",
            "\n".join(f'println(st_tb("{s}", {c}))' for s, c in (("hello", -1), ("hello", 2), ("héllo wörld", -3), ("", 1))),
            tags=("str", "slice", "double-colon", "step"),
        )
    )
    U.append(
        Unit(
            "str_slice_start_step_b",
            "def st_ub(s: str, a: int, c: int) -> str:\n    return s[a::c]",
            "\n".join(f'println(st_ub("{s}", {a}, {c}))' for s, a, c in (("hello", 1, 2), ("hello", 10, -2), ("hello", -1, -1), ("héllo", 99, -3))),
            tags=("str", "slice", "double-colon", "start-step"),
        )
    )
    U.append(
        Unit(
            "str_local_methods_b",
            "",
            'sm_t = "  a,b,ca  "\nsm_u = sm_t.strip()\nprintln(sm_u)\nsm_p = sm_u.split(",")\nprintln(len(sm_p))\nsm_j = "+".join(sm_p)\nprintln(sm_j)\nprintln(sm_j.replace("a", "A"))\nprintln(sm_u.upper())\nprintln(sm_u.contains("b,c"))',
            tags=("str", "methods"),
        )
    )
    U.append(
        Unit(
            "dict_int_b",
            "def co_db(k: int) -> int:\n    mut d: Dict[int, int] = {1: 10, 2: 20}\n    d[3] = 30\n    d[1] = 11\n    if k in d:\n        return d[k] + len(d)\n    return -1",
            "\n".join(f"println(co_db({k}))" for k in (1, 2, 3, 9)),
            tags=("dict", "in", "index-assign"),
        )
    )
    U.append(
        Unit(
            "inheritance_b",
            "class JAnimal:\n    legs: int\n\n    def speak(self) -> int:\n        return 0\n\n    def count(self) -> int:\n        return self.legs\n\n\nclass JDog extends JAnimal:\n    tricks: int\n\n    def speak(self) -> int:\n        return 7",
            "jd = JDog(legs=4, tricks=2)\nprintln(jd.speak())\nprintln(jd.count())\nprintln(jd.tricks)\nja = JAnimal(legs=2)\nprintln(ja.speak())",
            tags=("class", "extends", "override"),
        )
    )
    U.append(
        Unit(
            "enum_arrow_b",
            "enum Lamp:\n    Red\n    Green\n\n\ndef en_lb(l: Lamp) -> int:\n    return match l:\n        Lamp.Red => 1\n        Lamp.Green => 2",
            "println(en_lb(Lamp.Red))\nprintln(en_lb(Lamp.Green))",
            py_decls="class Lamp:\n    pass\n\nclass _LR(Lamp):\n    pass\n\nclass _LG(Lamp):\n    pass\n\nLamp.Red = _LR()\nLamp.Green = _LG()\n\n\ndef en_lb(l):\n    return 1 if l is Lamp.Red else 2",
            tags=("enum", "match-expr", "arrow"),
        )
    )
    U.append(
        Unit(
            "class_mut_self_b",
            "class KCounter:\n    n: int\n\n    def bump(mut self, by: int) -> int:\n        self.n = self.n + by\n        return self.n\n\n    def value(self) -> int:\n        return self.n",
            "mut kc = KCounter(n=1)\nprintln(kc.bump(2))\nprintln(kc.bump(5))\nprintln(kc.value())",
            tags=("class", "mut-self"),
        )
    )
    U.append(
        Unit(
            "model_methods_b",
            "model NPoint:\n    x: int\n    y: int = 7\n\n    def norm1(self) -> int:\n        return self.x + self.y\n\n    def scaled_x(self, k: int) -> int:\n        return self.x * k",
            "np1 = NPoint(x=2)\nprintln(np1.norm1())\nprintln(np1.scaled_x(3))\nprintln(NPoint(x=1, y=1).norm1())\nprintln(np1.y)",
            tags=("model", "default", "method"),
        )
    )
    U.append(
        Unit(
            "pow_int_b",
            "def pw_b(n: int) -> int:\n    return n ** 2 + n ** 3",
            "\n".join(f"println(pw_b({n}))" for n in (-3, 0, 2)),
            tags=("pow", "int-literal-exponent"),
        )
    )
    U.append(
        Unit(
            "pow_float_b",
            "def pw_f(x: float, n: int) -> float:\n    return x ** 2.0 + n ** -1",
            "\n".join(f"println(pw_f({x}, {n}))" for x, n in ((1.5, 2), (-2.0, 4))),
            tags=("pow", "float", "negative-literal-exponent"),
        )
    )
    U.append(
        Unit(
            "trait_default_b",
            "trait TCount:\n    def base(self) -> int: ...\n\n    def doubled(self) -> int:\n        return self.base() * 2\n\n\nclass TBox with TCount:\n    n: int\n\n    def base(self) -> int:\n        return self.n",
            "println(TBox(n=21).doubled())",
            py_decls="class TCount:\n    def doubled(self):\n        return self.base() * 2\n\n\n@dataclass\nclass TBox(TCount):\n    n: int\n\n    def base(self):\n        return self.n",
            tags=("trait", "default-method"),
        )
    )
    U.append(
        Unit(
            "trait_requires_b",
            "@requires(count: int)\ntrait TBump:\n    def bump(mut self) -> None:\n        self.count += 1\n\n    def twice(self) -> int:\n        return self.count * 2\n\n\nclass TSvc with TBump:\n    count: int = 0",
            "mut ts = TSvc()\nts.bump()\nts.bump()\nprintln(ts.twice())\nprintln(ts.count)",
            py_decls="class TBump:\n    def bump(self):\n        self.count += 1\n\n    def twice(self):\n        return self.count * 2\n\n\n@dataclass\nclass TSvc(TBump):\n    count: int = 0",
            tags=("trait", "requires", "mut-self"),
        )
    )
    U.append(
        Unit(
            "closure_b",
            "def cl_b(k: int) -> int:\n    add = (x) => x + 1\n    return add(k) * 2",
            "println(cl_b(3))\nprintln(cl_b(-1))",
            py_decls="def cl_b(k):\n    add = lambda x: x + 1\n    return add(k) * 2",
            tags=("closure",),
        )
    )
    U.append(
        Unit(
            "key_dict_int",
            "def pk_b(k: int) -> int:\n    d = {1: 10}\n    return d[k]",
            "println(pk_b(1))\nprintln(pk_b(5))\nprintln(99)",
            py_decls="def pk_b(k):\n    d = {1: 10}\n    return _idx(d, k)",
            tags=("runtime-error", "key_dict_int"),
            panics=True,
        )
    )
    # ---- runtime errors (each alone at the end of a program) --------------------------------------------------------
    PAN = [
        ("zde_floordiv", "def pz_a(a: int, b: int) -> int:\n    return a // b", "println(pz_a(1, 1))\nprintln(pz_a(1, 0))\nprintln(99)", "def pz_a(a, b):\n    return _fdiv(a, b)"),
        ("zde_mod", "def pz_b(a: int, b: int) -> int:\n    return a % b", "println(pz_b(5, 3))\nprintln(pz_b(1, 0))\nprintln(99)", "def pz_b(a, b):\n    return _mod(a, b)"),
        ("zde_div", "def pz_c(a: int, b: int) -> float:\n    return a / b", "println(pz_c(1, 2))\nprintln(pz_c(1, 0))\nprintln(99)", "def pz_c(a, b):\n    return _div(a, b)"),
        ("zde_div_float", "def pz_d(a: float, b: float) -> float:\n    return a / b", "println(pz_d(1.0, 2.0))\nprintln(pz_d(1.0, 0.0))\nprintln(99)", "def pz_d(a, b):\n    return _div(a, b)"),
        ("zde_compound", "def pz_e(a: int, b: int) -> int:\n    mut x = a\n    x //= b\n    return x", "println(pz_e(7, 2))\nprintln(pz_e(7, 0))\nprintln(99)", "def pz_e(a, b):\n    x = a\n    x = _fdiv(x, b)\n    return x"),
        ("zde_compound_mod", "def pz_f(a: int, b: int) -> int:\n    mut x = a\n    x %= b\n    return x", "println(pz_f(7, 2))\nprintln(pz_f(7, 0))\nprintln(99)", "def pz_f(a, b):\n    x = a\n    x = _mod(x, b)\n    return x"),
        ("idx_list", "def pi_a(i: int) -> int:\n    xs = [1, 2, 3]\n    return xs[i]", "println(pi_a(-1))\nprintln(pi_a(3))\nprintln(99)", "def pi_a(i):\n    xs = [1, 2, 3]\n    return _idx(xs, i)"),
        ("idx_str", 'def pi_b(i: int) -> str:\n    s = "héy"\n    return s[i]', "println(pi_b(1))\nprintln(pi_b(-4))\nprintln(99)", 'def pi_b(i):\n    s = "héy"\n    return _idx(s, i)'),
        ("key_dict", 'def pk_a(k: str) -> int:\n    d = {"a": 1}\n    return d[k]', 'println(pk_a("a"))\nprintln(pk_a("zz"))\nprintln(99)', 'def pk_a(k):\n    d = {"a": 1}\n    return _idx(d, k)'),
        ("slice_step0", "def ps_a(c: int) -> int:\n    xs = [1, 2, 3]\n    return len(xs[::c])", "println(ps_a(2))\nprintln(ps_a(0))\nprintln(99)", "def ps_a(c):\n    xs = [1, 2, 3]\n    return len(_slice(xs, None, None, c))"),
        ("range_step0", "def pr_a(c: int) -> int:\n    mut n = 0\n    for i in range(0, 5, c):\n        n += 1\n    return n", "println(pr_a(2))\nprintln(pr_a(0))\nprintln(99)", "def pr_a(c):\n    n = 0\n    for i in _range(0, 5, c):\n        n += 1\n    return n"),
    ]
    for nm, d, drv, pyd in PAN:
        U.append(Unit(nm, d, drv, py_decls=pyd, tags=("runtime-error", nm), panics=True))
    U.extend(grammar_units(tier))
    return U


# =====================================================================================================================
# Statement-sequence grammar: every sequence of <= 2 statements over two mutable ints (operation sequences up to a depth)
# =====================================================================================================================
SIMPLE = ["x += y", "x -= 1", "y = x * 2 - y", "y = x // 3", "x %= 5", "x = -x", "y += x % 3", "x = x * y"]
INNER = ["x += y", "y -= 1", "x = x * 2 - y"]


def grammar_statements():
    out = [(f"simple:{s}", s) for s in SIMPLE]
    for s in INNER:
        for t in INNER:
            out.append((f"ifelse:{s}|{t}", f"if x < y:\n    {s}\nelse:\n    {t}"))
        out.append((f"if:{s}", f"if x % 2 == 0:\n    {s}"))
        out.append((f"for:{s}", f"for i in range(3):\n    {s}"))
        out.append((f"for-continue:{s}", f"for i in range(4):\n    if i == 2:\n        continue\n    {s}"))
        out.append((f"for-break:{s}", f"for i in range(5):\n    if i == 3:\n        break\n    {s}"))
        out.append((f"while:{s}", "mut kk = 0\nwhile kk < 3:\n    kk += 1\n    " + s))
        out.append((f"and:{s}", f"if x < y and y > 0:\n    {s}"))
        out.append((f"or:{s}", f"if x < y or x == 0:\n    {s}"))
        out.append((f"for-nested-if:{s}", f"for i in range(3):\n    if i % 2 == 0:\n        {s}\n    else:\n        y += i"))
    for k, (s, t, u) in enumerate([(INNER[0], INNER[1], INNER[2]), (INNER[1], INNER[2], INNER[0]), (INNER[2], INNER[0], INNER[1])]):
        out.append((f"elif:{k}", f"if x < 0:\n    {s}\nelif x == 0:\n    {t}\nelse:\n    {u}"))
        out.append((f"match:{k}", f"match x % 3:\n    case 0:\n        {s}\n    case 1:\n        {t}\n    case _:\n        {u}"))
    return out


def grammar_units(tier):
    sts = grammar_statements()
    seqs = [(a,) for a in sts]
    second = sts if tier == "thorough" else [sts[0], sts[2], sts[4], sts[8], sts[12], sts[-1]]
    for a in sts:
        for b in second:
            seqs.append((a, b))
    args = [(-7, 3), (0, 0), (2, 5), (10, -4)]
    units = []
    for k, seq in enumerate(seqs):
        body = ""
        for j, (_, text) in enumerate(seq):
            body += text.replace("kk", f"k{j}").replace("for i in", f"for i{j} in").replace("if i ==", f"if i{j} ==").replace("if i %", f"if i{j} %").replace("y += i", f"y += i{j}") + "\n"
        nm = slug("gq", "|".join(n for n, _ in seq))
        decl = f"def {nm}(x0: int, y0: int) -> int:\n    mut x = x0\n    mut y = y0\n" + ind(body.rstrip("\n")) + "\n    return x * 1000 + y"
        drv = "\n".join(f"println({nm}({a}, {b}))" for a, b in args)
        units.append(Unit(nm, decl, drv, tags=("seq",) + tuple(n for n, _ in seq)))
        if len(seq) == 1:
            # the same single statement with the two variables initialised from call results (their types are then not
            # syntactically evident: in an imported module the code generator has no checker output for them)
            for iname, ix, iy in (("init:sum", "sum([x0])", "sum([y0])"), ("init:int_len", "int(x0)", "y0 + len([x0]) - 1")):
                nm2 = slug("gi", iname + "|" + seq[0][0])
                decl2 = f"def {nm2}(x0: int, y0: int) -> int:\n    mut x = {ix}\n    mut y = {iy}\n" + ind(body.rstrip("\n")) + "\n    return x * 1000 + y"
                drv2 = "\n".join(f"println({nm2}({a}, {b}))" for a, b in args)
                units.append(Unit(nm2, decl2, drv2, tags=("seq", iname, seq[0][0])))
    return units
