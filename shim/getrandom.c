/* LD_PRELOAD shim: makes std's HashMap seeds a function of VERIF_HASH_SEED (owns hash-map iteration order).
 * std::collections::hash_map::RandomState::new() obtains its keys from getrandom(2) (or /dev/urandom fallbacks);
 * both entry points are covered. Without VERIF_HASH_SEED the real functions are used. */
#define _GNU_SOURCE
#include <dlfcn.h>
#include <stddef.h>
#include <stdint.h>
#include <stdlib.h>
#include <string.h>
#include <sys/types.h>

static uint64_t state;
static int inited;

static int seeded(void) {
    if (!inited) {
        const char *s = getenv("VERIF_HASH_SEED");
        inited = 1;
        if (s) {
            state = strtoull(s, NULL, 10) * 0x9E3779B97F4A7C15ULL + 0xD1B54A32D192ED03ULL;
            inited = 2;
        }
    }
    return inited == 2;
}

static void fill(unsigned char *buf, size_t len) {
    for (size_t i = 0; i < len; i++) {
        state = state * 6364136223846793005ULL + 1442695040888963407ULL;
        buf[i] = (unsigned char)(state >> 56);
    }
}

ssize_t getrandom(void *buf, size_t len, unsigned int flags) {
    if (seeded()) {
        fill((unsigned char *)buf, len);
        return (ssize_t)len;
    }
    ssize_t (*real)(void *, size_t, unsigned int) = dlsym(RTLD_NEXT, "getrandom");
    return real ? real(buf, len, flags) : -1;
}

int getentropy(void *buf, size_t len) {
    if (seeded()) {
        fill((unsigned char *)buf, len);
        return 0;
    }
    int (*real)(void *, size_t) = dlsym(RTLD_NEXT, "getentropy");
    return real ? real(buf, len) : -1;
}
