"""Deviation-bounded enumeration of *syntactic* Incan programs (used by C08, C09, C10, C11-bases).

An atom is one syntactic choice (declaration / statement / expression / pattern / type form, or an optional AST field).
A context is a syntactic position. A program with k deviations places k atoms into nested contexts of a fixed base.
Every program carries its feature signature (tuple of atom / context names) for attribution.

Only parseability is required here; typing is irrelevant (the formatter, lexer and parser never look at types).
"""
import itertools
import os
import textwrap


def ind(text, n=1):
    pad = "    " * n
    return "\n".join((pad + l if l.strip() else l) for l in text.split("\n"))


# ---------------------------------------------------------------------------------------------------------------------
# Expression atoms: name -> text (single line unless marked multi)
# ---------------------------------------------------------------------------------------------------------------------
EXPR = {
    "ident": "a",
    "self": "self",
    "int0": "0",
    "int": "42",
    "int_big": "9223372036854775807",
    "int_us": "1_000",
    "float_int": "1.0",
    "float_1e19": "1e19",
    "float_2pow63": "9223372036854775808.0",
    "float_below_2pow63": "9223372036854774784.0",
    "float_1e100": "1e100",
    "float_avogadro": "6.02214076e23",
    "float_max": "1.7976931348623157e308",
    "float_tiny": "1e-7",
    "float_denormal": "5e-324",
    "float_neg_1e19": "-1e19",
    "int_max": "9223372036854775807",
    "int_min_expr": "-9223372036854775807 - 1",
    "float": "2.5",
    "float_small": "0.001",
    "float_exp": "1e10",
    "float_exp_neg": "1.5e-3",
    "float_big": "123456789.125",
    "tuple_index_chain": "a.0.1",
    "tuple_index_chain_spaced": "a.0 .1",
    "tuple_index_method": "a.0.b()",
    "str_empty": '""',
    "str": '"hello"',
    "str_sq": "'single'",
    "str_dq_in": "'say \"hi\"'",
    "str_sq_in": '"it\'s"',
    "str_esc_n": '"a\\nb"',
    "str_esc_t": '"a\\tb"',
    "str_esc_bs": '"a\\\\b"',
    "str_esc_bs_n": '"C:\\\\new"',
    "str_esc_bs_end": '"trail\\\\"',
    "str_esc_q": '"a\\"b"',
    "str_esc_r": '"a\\rb"',
    "str_esc_0": '"a\\0b"',
    "str_braces": '"{x} and }{"',
    "str_unicode": '"héllo 𝄞"',
    "str_hash": '"a # b"',
    # raw (unescaped) control characters and line breaks inside literals
    "str_triple_multi": '"""line one\nline two\n"""',
    "str_triple_crlf": '"""line one\r\nline two\r\n"""',
    "str_triple_cr": '"""a\rb"""',
    "str_triple_quotes_in": '"""say "hi" there"""',
    "str_raw_tab": '"a\tb"'.replace("\\t", "\t"),
    "bytes": 'b"ab"',
    "bytes_hex": 'b"\\x00\\xff"',
    "bytes_quote": 'b"a\\"b"',
    "bytes_bs": 'b"a\\\\b"',
    "true": "True",
    "false": "False",
    "none": "None",
    "add": "a + b",
    "sub": "a - b",
    "mul": "a * b",
    "div": "a / b",
    "floordiv": "a // b",
    "mod": "a % b",
    "pow": "a ** b",
    "pow_right": "a ** b ** c",
    "eq": "a == b",
    "ne": "a != b",
    "lt": "a < b",
    "gt": "a > b",
    "le": "a <= b",
    "ge": "a >= b",
    "and": "a and b",
    "or": "a or b",
    "in": "a in b",
    "not_in": "a not in b",
    "is": "a is None",
    "neg": "-a",
    "neg_lit": "-1",
    "not": "not a",
    "not_cmp": "not a == b",
    "neg_pow": "-a ** b",
    "mixed_prec": "a + b * c",
    "paren_needed": "(a + b) * c",
    "paren_right": "a - (b - c)",
    "paren_redundant": "(a * b) + c",
    "paren_atom": "(a)",
    "paren_div": "a / (b * c)",
    "paren_pow_left": "(a ** b) ** c",
    "paren_neg": "(-a) ** b",
    "paren_cmp": "(a < b) == c",
    "paren_and_or": "(a or b) and c",
    "paren_not": "not (a and b)",
    "chain_add": "a + b + c + d",
    "chain_cmp_and": "a < b and b < c",
    "call0": "f()",
    "call1": "f(a)",
    "call2": "f(a, b)",
    "call_named": "f(a, key=b)",
    "call_nested": "f(g(a), h(b, c))",
    "ctor_named": "Point(x=1, y=2)",
    "ctor_pos": "UserId(42)",
    "ctor_empty": "Empty()",
    "some": "Some(a)",
    "ok": "Ok(a)",
    "err": 'Err("bad")',
    "index": "a[0]",
    "index_neg": "a[-1]",
    "index_expr": "a[i + 1]",
    "index_chain": "a[0][1]",
    "slice_se": "a[1:2]",
    "slice_s": "a[1:]",
    "slice_e": "a[:2]",
    "slice_all": "a[:]",
    "slice_ses": "a[1:2:3]",
    "slice_step": "a[: :2]",
    "slice_neg_step": "a[: :-1]",
    "slice_s_step": "a[1: :2]",
    "slice_e_step": "a[:5:2]",
    "field": "a.b",
    "field_chain": "a.b.c",
    "tuple_field": "a.0",
    "method0": "a.m()",
    "method1": "a.m(b)",
    "method_chain": "a.m().n(b).o",
    "method_named": "a.m(k=b)",
    "assoc_call": "Point.origin()",
    "enum_variant": "Color.Red",
    "enum_ctor": "Shape.Circle(1)",
    "try": "f()?",
    "try_method": "a.m()?",
    "try_chain": "f()?.g()?",
    "await": "await f()",
    "list_empty": "[]",
    "list": "[1, 2, 3]",
    "list_nested": "[[1], [2, 3]]",
    "dict_empty": "{}",
    "dict": '{"a": 1, "b": 2}',
    "set": "{1, 2}",
    "tuple2": "(1, 2)",
    "tuple3": '(1, "a", True)',
    "tuple1": "(1,)",
    "unit": "()",
    "listcomp": "[x * 2 for x in xs]",
    "listcomp_if": "[x for x in xs if x > 0]",
    "dictcomp": "{k: v for k in ks}",
    "dictcomp_if": "{k: 1 for k in ks if k}",
    "closure1": "(x) => x + 1",
    "closure2": "(x, y) => x * y",
    "closure0": "() => 1",
    "closure_typed": "(x: int) => x",
    "fstr_plain": 'f"plain"',
    "fstr_var": 'f"v={a}"',
    "fstr_expr": 'f"{a + 1} and {b.c}"',
    "fstr_call": 'f"{f(a)}"',
    "fstr_braces": 'f"{{lit}} {a}"',
    "fstr_unicode": 'f"é{a}𝄞"',
    "fstr_quote": "f\"say \\\"{a}\\\"\"",
    "fstr_sq": "f'{a}'",
    "fstr_fmt_spec": 'f"{a:.2f}"',
    "fstr_debug": 'f"{a:?} and {b.c:?}"',
    "range": "0..10",
    "range_incl": "0..=10",
    "range_call": "range(10)",
    "range3": "range(0, 10, 2)",
    "yield": "yield a",
    "yield_none": "yield",
    "is_not_none": "a is not None",
}

# multi-line expression atoms; only usable where a statement-level expression is allowed
EXPR_MULTI = {
    "match_case": "match a:\n    case 0:\n        1\n    case _:\n        2",
    "match_arrow": "match a:\n    0 => 1\n    _ => 2",
    "match_arrow_block": "match a:\n    Some(v) =>\n        print(v)\n        v\n    None => 0",
    "match_case_inline": "match a:\n    case Some(v): return v\n    case None: return 0",
    "match_guard": "match a:\n    case n if n < 10:\n        1\n    case n if n < 20 and n != 15:\n        2\n    case _:\n        3",
    "if_expr": "if a:\n    1\nelse:\n    2",
    "if_expr_noelse": "if a:\n    1",
    "list_multiline": "[\n    1,\n    2,\n]",
    "call_multiline": "f(\n    a,\n    b,\n)",
    "dict_multiline": '{\n    "a": 1,\n    "b": 2,\n}',
}

# ---------------------------------------------------------------------------------------------------------------------
# Patterns (placed in `match a:` arms)
# ---------------------------------------------------------------------------------------------------------------------
PATTERN = {
    "wild": "_",
    "bind": "n",
    "lit_int": "0",
    "lit_neg": "-1",
    "lit_str": '"s"',
    "lit_true": "True",
    "lit_none": "None",
    "lit_float": "1.5",
    "some": "Some(v)",
    "some_lit": "Some(0)",
    "some_nested": "Some(Some(v))",
    "ok": "Ok(v)",
    "err": "Err(e)",
    "qualified_unit": "Color.Red",
    "qualified_data": "Shape.Circle(r)",
    "qualified_multi": "Shape.Rect(w, h)",
    "qualified_wild": "Shape.Rect(_, h)",
    "unqualified_ctor": "Circle(r)",
    "ctor_empty": "Foo()",
    "ctor_empty_qualified": "Shape.Dot()",
    "ctor_nested_empty": "Some(Foo())",
    "tuple": "(x, y)",
    "tuple_lit": "(0, _)",
    "tuple_nested": "((a, b), c)",
}

# ---------------------------------------------------------------------------------------------------------------------
# Types (placed in annotations)
# ---------------------------------------------------------------------------------------------------------------------
TYPE = {
    "int": "int",
    "str": "str",
    "float": "float",
    "bool": "bool",
    "bytes": "bytes",
    "none": "None",
    "unit": "()",
    "named": "Point",
    "list": "List[int]",
    "list_lower": "list[int]",
    "dict": "Dict[str, int]",
    "set": "Set[int]",
    "option": "Option[int]",
    "result": "Result[int, str]",
    "nested": "Dict[str, List[Option[int]]]",
    "tuple_sq": "Tuple[int, str]",
    "tuple_lower": "tuple[int, str]",
    "tuple_paren": "(int, str)",
    "fn": "(int, str) -> bool",
    "fn0": "() -> None",
    "fn_nested": "(int) -> (int) -> int",
    "self": "Self",
    "typevar": "T",
    "generic_user": "Box[int]",
}

# ---------------------------------------------------------------------------------------------------------------------
# Statement atoms (may use {E} for a default expression); text is a block
# ---------------------------------------------------------------------------------------------------------------------
STMT = {
    "assign": "x = 1",
    "assign_typed": "x: int = 1",
    "let": "let x = 1",
    "let_typed": "let x: int = 1",
    "mut": "mut x = 1",
    "mut_typed": "mut x: int = 1",
    "reassign": "mut x = 1\nx = 2",
    "chained": "x = y = 1",
    "tuple_unpack": "a, b = pair",
    "tuple_unpack_let": "let a, b = pair",
    "tuple_unpack_mut": "mut a, b = pair",
    "tuple_unpack_paren": "(a, b) = pair",
    "tuple_assign": "a.x, b[0] = pair",
    "swap": "a, b = b, a",
    "field_assign": "self.x = 1",
    "field_assign_chain": "a.b.c = 1",
    "index_assign": "xs[0] = 1",
    "index_assign_dict": 'd["k"] = 1',
    "index_assign_nested": "xs[0][1] = 2",
    "cadd": "x += 1",
    "csub": "x -= 1",
    "cmul": "x *= 2",
    "cdiv": "x /= 2",
    "cfloordiv": "x //= 2",
    "cmod": "x %= 2",
    "cadd_expr": "x += a * b",
    "cadd_field": "self.count += 1",
    "csub_field_expr": "a.f -= b - c",
    "cadd_index": "xs[0] += 1",
    "return": "return 1",
    "return_none": "return",
    "return_expr": "return a + b",
    "return_tuple": "return a, b",
    "pass": "pass",
    "break": "while True:\n    break",
    "continue": "while True:\n    continue",
    "expr_call": "f(a)",
    "expr_method": "xs.append(1)",
    "print": 'print("x")',
    "if": "if a:\n    pass",
    "if_else": "if a:\n    x = 1\nelse:\n    x = 2",
    "if_elif": "if a:\n    x = 1\nelif b:\n    x = 2",
    "if_elif_else": "if a:\n    x = 1\nelif b:\n    x = 2\nelif c:\n    x = 3\nelse:\n    x = 4",
    "if_nested": "if a:\n    if b:\n        x = 1\n    else:\n        x = 2",
    "while": "while a < 3:\n    a += 1",
    "for": "for i in xs:\n    print(i)",
    "for_range": "for i in range(3):\n    print(i)",
    "for_range_op": "for i in 0..3:\n    print(i)",
    "for_tuple": "for k, v in pairs:\n    print(k)",
    "for_nested": "for i in xs:\n    for j in ys:\n        print(i)",
    "match_stmt": "match a:\n    case 0:\n        print(0)\n    case _:\n        print(1)",
    "match_stmt_arrow": "match a:\n    0 => print(0)\n    _ => print(1)",
    "match_return": "match a:\n    case Some(v):\n        return v\n    case None:\n        return 0",
    "docstring_stmt": '"""inner doc"""',
    "comment_only": "# comment\npass",
    "assert": "assert a == b",
    "assert_msg": 'assert a == b, "msg"',
    "blank_between": "x = 1\n\ny = 2",
    "try_stmt": "f()?",
    "await_stmt": "await f()",
    "yield_stmt": "yield x",
    "multi": "x = 1\ny = x + 1\nprint(y)",
}

# ---------------------------------------------------------------------------------------------------------------------
# Declaration atoms
# ---------------------------------------------------------------------------------------------------------------------
DECL = {
    "docstring": '"""Module doc"""',
    "docstring_multi": '"""\nModule doc\n\nsecond paragraph\n"""',
    "docstring_quotes": '"""say "hi" and \'yo\'"""',
    "docstring_backslash": '"""path C:\\\\tmp and \\\\n"""',
    "docstring_end_quote": '"""ends with a quote\\""""',
    "docstring_triple_inside": '"""has \\"\\"\\" inside"""',
    "docstring_bs_quote_end": '"""x\\\\\\""""',
    "docstring_multi_quotes": '"""\nline "a" ""\nlast "q"\n"""',
    "import_python_quote": 'import python "a\\"b"',
    "import_python_alias": 'import python "numpy" as np',
    "import": "import foo",
    "import_path_colons": "import a::b::c",
    "import_path_dots": "import a.b.c",
    "import_alias": "import a::b as c",
    "from": "from a import x",
    "from_multi": "from a.b import x, y",
    "from_alias": "from a import x as y, z",
    "from_colons": "from a::b import x",
    "from_parent": "from ..a import x",
    "from_parent2": "from ...a.b import x",
    "from_super": "from super::a import x",
    "from_crate": "from crate::a::b import x",
    "import_crate": "import crate::a::b",
    "import_super": "import super::a",
    "import_rust": "import rust::serde_json",
    "import_rust_path": "import rust::std::collections::HashMap",
    "import_rust_alias": "import rust::serde_json as sj",
    "from_rust": "from rust::std::collections import HashMap, HashSet",
    "from_rust_alias": "from rust::time import Instant as I",
    "import_python": 'import python "numpy" as np',
    "const": "const K = 1",
    "const_typed": "const K: int = 1",
    "const_pub": "pub const K: int = 1",
    "const_str": 'const S: str = "a" + "b"',
    "const_expr": "const K: int = (1 + 2) * 3",
    "const_list": "const XS: List[int] = [1, 2, 3]",
    "const_neg": "const K: int = -1",
    "const_float": "const F: float = 1.0",
    "fn": "def f() -> None:\n    pass",
    "fn_params": "def f(a: int, b: str) -> int:\n    return a",
    "fn_pub": "pub def f() -> None:\n    pass",
    "fn_async": "async def f() -> None:\n    pass",
    "fn_pub_async": "pub async def f() -> None:\n    pass",
    "fn_mut_param": "def f(mut a: int) -> int:\n    a += 1\n    return a",
    "fn_default": "def f(a: int = 1, b: str = \"x\") -> None:\n    pass",
    "fn_generic": "def f[T](a: T) -> T:\n    return a",
    "fn_generic2": "def f[T, U](a: T, b: U) -> T:\n    return a",
    "fn_fn_param": "def f(g: (int) -> int) -> int:\n    return g(1)",
    "fn_tuple_ret": "def f() -> (int, str):\n    return (1, \"a\")",
    "fn_unit_ret": "def f() -> ():\n    pass",
    "fn_docstring": 'def f() -> None:\n    """Doc"""\n    pass',
    "fn_docstring_multi": 'def f() -> None:\n    """\n    Doc line\n\n    more\n    """\n    pass',
    "fn_decorated": "@fixture\ndef f() -> int:\n    return 1",
    "fn_decorated_args": '@route("/x", method="GET")\ndef f() -> int:\n    return 1',
    "fn_decorated_multi": "@a\n@b(1)\ndef f() -> None:\n    pass",
    "fn_decorated_kw": "@fixture(scope=\"module\", autouse=True)\ndef f() -> int:\n    return 1",
    "fn_many_params": "def f(aaaaaaaaaaaa: int, bbbbbbbbbbbbbb: int, cccccccccccccc: int, dddddddddddddd: int, eeeeeeeeeeeee: int, fffffffffffff: int) -> int:\n    return 1",
    "model": "model M:\n    a: int",
    "model_pub": "pub model M:\n    a: int",
    "model_fields": "model M:\n    a: int\n    b: str = \"x\"\n    c: List[int] = []",
    "model_pub_field": "model M:\n    pub a: int\n    b: str",
    "model_method": "model M:\n    a: int\n\n    def get(self) -> int:\n        return self.a",
    "model_mut_method": "model M:\n    a: int\n\n    def inc(mut self) -> None:\n        self.a += 1",
    "model_static": "model M:\n    a: int\n\n    def make() -> M:\n        return M(a=1)",
    "model_with": "model M with T1:\n    a: int",
    "model_with2": "model M with T1, T2:\n    a: int",
    "model_generic": "model Box[T]:\n    v: T",
    "model_derive": "@derive(Debug, Eq, Clone)\nmodel M:\n    a: int",
    "model_derive2": "@derive(Serialize)\n@derive(Deserialize)\nmodel M:\n    a: int",
    "model_async_method": "model M:\n    a: int\n\n    async def get(self) -> int:\n        return self.a",
    "model_decorated_method": "model M:\n    a: int\n\n    @staticmethod\n    def make() -> int:\n        return 1",
    "model_two_methods": "model M:\n    a: int\n\n    def f(self) -> int:\n        return 1\n\n    def g(self) -> int:\n        return 2",
    "class": "class C:\n    x: int",
    "class_pub": "pub class C:\n    x: int",
    "class_pub_field": "class C:\n    pub x: int\n    y: str",
    "class_pub_field_method": "class C:\n    pub x: int\n\n    pub def m(self) -> int:\n        return self.x",
    "class_extends": "class C extends B:\n    x: int",
    "class_with": "class C with T1, T2:\n    x: int",
    "class_extends_with": "class C extends B with T1:\n    x: int",
    "class_generic": "class C[T]:\n    x: T",
    "class_methods": "class C:\n    x: int\n\n    def get(self) -> int:\n        return self.x\n\n    def set(mut self, v: int) -> None:\n        self.x = v",
    "class_pass": "class C:\n    pass",
    "class_derive": "@derive(Debug)\nclass C:\n    x: int",
    "trait": "trait T:\n    def m(self) -> str: ...",
    "trait_pub": "pub trait T:\n    def m(self) -> str: ...",
    "trait_abstract_nl": "trait T:\n    def m(self) -> str\n    def n(self) -> int",
    "trait_default": "trait T:\n    def m(self) -> str:\n        return \"x\"",
    "trait_mixed": "trait T:\n    def a(self) -> int: ...\n\n    def b(self) -> int:\n        return self.a()",
    "trait_pass": "trait T:\n    pass",
    "trait_requires": "@requires(name: str)\ntrait T:\n    def m(self) -> str:\n        return self.name",
    "trait_requires2": "@requires(name: str, count: int)\ntrait T:\n    def m(mut self) -> None:\n        self.count += 1",
    "trait_generic": "trait T[U]:\n    def m(self, u: U) -> U: ...",
    "newtype": "type N = newtype int",
    "newtype_pub": "pub type N = newtype int",
    "newtype_str": "type N = newtype str",
    "newtype_methods": "type N = newtype int:\n    def from_underlying(n: int) -> Result[N, str]:\n        return Ok(N(n))",
    "newtype_self_method": "type N = newtype int:\n    def get(self) -> int:\n        return self.0",
    "newtype_generic_under": "type N = newtype List[int]",
    "enum": "enum E:\n    A\n    B",
    "enum_pub": "pub enum E:\n    A\n    B",
    "enum_data": "enum E:\n    A(int)\n    B(int, str)\n    C",
    "enum_generic": "enum E[T]:\n    A(T)\n    B",
    "enum_nested_ty": "enum E:\n    A(List[int])\n    B(Option[str])",
}


def fn_wrap(body, name="main", sig="() -> None"):
    return f"def {name}{sig}:\n{ind(body)}\n"


# ---------------------------------------------------------------------------------------------------------------------
# Statement contexts: name -> function(block) -> block (still to be placed in a function body) or whole program
# ---------------------------------------------------------------------------------------------------------------------
def _c(tpl):
    def f(block):
        return tpl.replace("{S}", "\n".join(ind(block, tpl_indent(tpl)).split("\n")).lstrip(" "))

    return f


def tpl_indent(tpl):
    for line in tpl.split("\n"):
        if "{S}" in line:
            return (len(line) - len(line.lstrip(" "))) // 4
    return 0


STMT_CTX = {
    "body": "{S}",
    "if_then": "if c1:\n    {S}",
    "if_else": "if c1:\n    pass\nelse:\n    {S}",
    "elif": "if c1:\n    pass\nelif c2:\n    {S}",
    "elif_else": "if c1:\n    pass\nelif c2:\n    pass\nelse:\n    {S}",
    "while": "while c1:\n    {S}",
    "for": "for it in xs:\n    {S}",
    "for_if": "for it in xs:\n    if c1:\n        {S}",
    "case_block": "match subj:\n    case 0:\n        {S}\n    case _:\n        pass",
    "case_last": "match subj:\n    case 0:\n        pass\n    case _:\n        {S}",
    "arrow_block": "match subj:\n    0 =>\n        {S}\n    _ => 0",
    "after_stmt": "before = 0\n{S}",
    "before_stmt": "{S}\nafter = 0",
    "between_comments": "# lead\n{S}\n# trail\nz = 0",
}

# program-level contexts for a statement block: where the enclosing function lives
FN_CTX = {
    "fn": "def main() -> None:\n    {S}\n",
    "fn_ret": "def f(a: int, b: int) -> int:\n    {S}\n    return 0\n",
    "async_fn": "async def main() -> None:\n    {S}\n",
    "model_method": "model M:\n    x: int\n\n    def m(self) -> None:\n        {S}\n",
    "class_mut_method": "class C:\n    x: int\n\n    def m(mut self) -> None:\n        {S}\n",
    "trait_default": "trait T:\n    def m(self) -> None:\n        {S}\n",
    "newtype_method": "type N = newtype int:\n    def m(self) -> None:\n        {S}\n",
    "second_fn": "def first() -> None:\n    pass\n\n\ndef main() -> None:\n    {S}\n",
}

# ---------------------------------------------------------------------------------------------------------------------
# Expression contexts: name -> statement block template with {E}
# ---------------------------------------------------------------------------------------------------------------------
EXPR_CTX = {
    "assign": "x = {E}",
    "assign_typed": "x: int = {E}",
    "let": "let x = {E}",
    "mut": "mut x = {E}",
    "return": "return {E}",
    "expr_stmt": "{E}",
    "call_arg": "g({E})",
    "call_arg2": "g(1, {E})",
    "call_named": "g(k={E})",
    "ctor_field": "M(a={E})",
    "method_arg": "o.m({E})",
    "receiver": "({E}).m()",
    "bin_left": "x = {E} + 1",
    "bin_right": "x = 1 + {E}",
    "mul_left": "x = {E} * 2",
    "mul_right": "x = 2 * {E}",
    "sub_right": "x = 1 - {E}",
    "pow_left": "x = {E} ** 2",
    "pow_right": "x = 2 ** {E}",
    "cmp_left": "x = {E} == 1",
    "and_right": "x = q and {E}",
    "neg": "x = -{E}",
    "not": "x = not {E}",
    "paren": "x = ({E})",
    "if_cond": "if {E}:\n    pass",
    "elif_cond": "if q:\n    pass\nelif {E}:\n    pass",
    "while_cond": "while {E}:\n    pass",
    "for_iter": "for it in {E}:\n    pass",
    "index": "x = xs[{E}]",
    "index_obj": "x = ({E})[0]",
    "slice_start": "x = xs[{E}:]",
    "slice_end": "x = xs[:{E}]",
    "slice_step": "x = xs[: :{E}]",
    "list_elem": "x = [{E}, 1]",
    "dict_value": 'x = {"k": {E}}',
    "dict_key": "x = {{E}: 1}",
    "tuple_elem": "x = ({E}, 1)",
    "set_elem": "x = {{E}, 1}",
    "comp_elem": "x = [{E} for it in xs]",
    "comp_filter": "x = [it for it in xs if {E}]",
    "comp_iter": "x = [it for it in {E}]",
    "closure_body": "x = (p) => {E}",
    "match_subject": "match {E}:\n    case _:\n        pass",
    "guard": "match subj:\n    case n if {E}:\n        pass\n    case _:\n        pass",
    "arrow_arm": "match subj:\n    0 => {E}\n    _ => 0",
    "case_inline": "match subj:\n    case 0: {E}\n    case _: pass",
    "cadd_rhs": "x += {E}",
    "csub_rhs": "x -= {E}",
    "csub_field_rhs": "a.f -= {E}",
    "cmul_index_rhs": "xs[0] *= {E}",
    "field_assign_rhs": "o.f = {E}",
    "index_assign_rhs": "xs[0] = {E}",
    "index_assign_idx": "xs[{E}] = 0",
    "try": "x = ({E})?",
    "await": "x = await {E}",
    "some": "x = Some({E})",
    "fstring": 'x = f"v={{E}}"',
    "assert": "assert {E}",
    "print": "print({E})",
    "yield": "yield {E}",
}

# program-level contexts for an expression outside function bodies
EXPR_DECL_CTX = {
    "const_init": "const K = {E}\n",
    "const_typed_init": "const K: int = {E}\n",
    "field_default": "model M:\n    a: int = {E}\n",
    "param_default": "def f(a: int = {E}) -> None:\n    pass\n",
    "decorator_arg": "@deco({E})\ndef f() -> None:\n    pass\n",
    "decorator_kwarg": "@deco(k={E})\ndef f() -> None:\n    pass\n",
}

TYPE_CTX = {
    "let_ann": "def main() -> None:\n    x: {T} = y\n",
    "param": "def f(a: {T}) -> None:\n    pass\n",
    "ret": "def f() -> {T}:\n    pass\n",
    "field": "model M:\n    a: {T}\n",
    "const_ann": "const K: {T} = 1\n",
    "variant": "enum E:\n    A({T})\n",
    "newtype_under": "type N = newtype {T}\n",
    "generic_arg": "def f(a: List[{T}]) -> None:\n    pass\n",
    "closure_param": "def main() -> None:\n    x = (p: {T}) => p\n",
    "requires": "@requires(name: {T})\ntrait Tr:\n    def m(self) -> None:\n        pass\n",
}

PATTERN_CTX = {
    "case": "def main() -> None:\n    match a:\n        case {P}:\n            pass\n        case _:\n            pass\n",
    "case_guard": "def main() -> None:\n    match a:\n        case {P} if c:\n            pass\n        case _:\n            pass\n",
    "arrow": "def main() -> None:\n    match a:\n        {P} => 1\n        _ => 2\n",
    "case_inline": "def main() -> None:\n    match a:\n        case {P}: return\n        case _: return\n",
    "in_some": "def main() -> None:\n    match a:\n        case Some({P}):\n            pass\n        case _:\n            pass\n",
    "in_tuple": "def main() -> None:\n    match a:\n        case ({P}, _):\n            pass\n        case _:\n            pass\n",
}


def place(tpl, key, text):
    """Substitute a (possibly multi-line) block for {key} in tpl, indenting continuation lines to the placeholder's column."""
    marker = "{" + key + "}"
    out = []
    for line in tpl.split("\n"):
        if marker in line:
            col = len(line) - len(line.lstrip(" "))
            lines = text.split("\n")
            if line.strip() == marker:
                out.extend((" " * col + l) if l.strip() else l for l in lines)
            else:
                first = line.replace(marker, lines[0], 1) if len(lines) > 1 else line.replace(marker, text)
                out.append(first)
                if len(lines) > 1:
                    # continuation lines of a multi-line expression: indent relative to the statement's column
                    out.extend((" " * col + l) if l.strip() else l for l in lines[1:])
        else:
            out.append(line)
    return "\n".join(out)


def stmt_program(block, sctx="body", fctx="fn"):
    b = place(STMT_CTX[sctx], "S", block)
    return place(FN_CTX[fctx], "S", b)


def is_multi(e):
    return "\n" in e


class Case:
    __slots__ = ("sig", "src", "level")

    def __init__(self, sig, src, level):
        self.sig, self.src, self.level = sig, src, level


def enumerate_cases(max_level=2):
    """Yield Case objects, simplest first. sig = tuple of 'kind:name' strings, outermost context last."""
    # ---- level 1: every atom in its simplest context ----
    for n, d in DECL.items():
        yield Case((f"decl:{n}",), d + "\n", 1)
    for n, s in STMT.items():
        yield Case((f"stmt:{n}",), stmt_program(s), 1)
    for n, e in EXPR.items():
        yield Case((f"expr:{n}",), stmt_program(place(EXPR_CTX["assign"], "E", e)), 1)
    for n, e in EXPR_MULTI.items():
        yield Case((f"expr:{n}",), stmt_program(place(EXPR_CTX["assign"], "E", e)), 1)
    for n, p in PATTERN.items():
        yield Case((f"pat:{n}",), place(PATTERN_CTX["case"], "P", p), 1)
    for n, t in TYPE.items():
        yield Case((f"type:{n}",), place(TYPE_CTX["let_ann"], "T", t), 1)
    if max_level < 2:
        return
    # ---- level 2: atom x context ----
    for n, s in STMT.items():
        for c in STMT_CTX:
            if c != "body":
                yield Case((f"stmt:{n}", f"sctx:{c}"), stmt_program(s, c), 2)
        for fc in FN_CTX:
            if fc != "fn":
                yield Case((f"stmt:{n}", f"fctx:{fc}"), stmt_program(s, "body", fc), 2)
    for n, e in itertools.chain(EXPR.items(), EXPR_MULTI.items()):
        for c, tpl in EXPR_CTX.items():
            if c == "assign":
                continue
            if is_multi(e) and c not in ("assign_typed", "let", "mut", "return", "expr_stmt"):
                continue
            if c == "fstring" and ('"' in e or "\\" in e or "{" in e):
                continue
            yield Case((f"expr:{n}", f"ectx:{c}"), stmt_program(place(tpl, "E", e)), 2)
        if not is_multi(e):
            for c, tpl in EXPR_DECL_CTX.items():
                yield Case((f"expr:{n}", f"dctx:{c}"), place(tpl, "E", e), 2)
    for n, p in PATTERN.items():
        for c, tpl in PATTERN_CTX.items():
            if c != "case":
                yield Case((f"pat:{n}", f"pctx:{c}"), place(tpl, "P", p), 2)
    for n, t in TYPE.items():
        for c, tpl in TYPE_CTX.items():
            if c != "let_ann":
                yield Case((f"type:{n}", f"tctx:{c}"), place(tpl, "T", t), 2)
    # ordered pairs of declarations (blank-line / ordering logic between declaration kinds)
    # (every declaration atom followed by every other: per-declaration state of the formatter / parser must not leak)
    for a in DECL:
        for b in DECL:
            if b.startswith("docstring"):
                continue
            da, db = DECL[a], DECL[b]
            # avoid duplicate names: rename second
            db = db.replace("def f(", "def f2(").replace("model M", "model M2").replace("class C", "class C2").replace("trait T:", "trait T9:").replace("type N ", "type N2 ").replace("enum E", "enum E2").replace("const K", "const K2")
            yield Case((f"decl:{a}", f"then:{b}"), da + "\n\n" + db + "\n", 2)
    if max_level < 3:
        return
    # ---- level 3: expr x ectx x sctx, expr x ectx x fctx, expr x ectx x ectx (nesting), stmt x sctx x fctx ----
    for n, e in EXPR.items():
        for c, tpl in EXPR_CTX.items():
            if c == "fstring" and ('"' in e or "\\" in e or "{" in e):
                continue
            st = place(tpl, "E", e)
            for sc in STMT_CTX:
                if sc != "body":
                    yield Case((f"expr:{n}", f"ectx:{c}", f"sctx:{sc}"), stmt_program(st, sc), 3)
            for fc in ("model_method", "trait_default", "newtype_method"):
                yield Case((f"expr:{n}", f"ectx:{c}", f"fctx:{fc}"), stmt_program(st, "body", fc), 3)
    nest_outer = ["call_arg", "bin_left", "bin_right", "mul_left", "mul_right", "sub_right", "pow_left", "pow_right", "neg", "not", "paren", "index", "list_elem", "closure_body", "cmp_left", "and_right", "try", "receiver"]
    for n, e in EXPR.items():
        for c1 in nest_outer:
            inner_tpl = EXPR_CTX[c1]
            # take only the expression part of the inner template (after 'x = ' if present)
            inner_expr = inner_tpl[4:] if inner_tpl.startswith("x = ") else inner_tpl
            if "\n" in inner_expr:
                continue
            nested = inner_expr.replace("{E}", e)
            for c2 in nest_outer:
                if c2 == "fstring":
                    continue
                yield Case((f"expr:{n}", f"ectx:{c1}", f"ectx2:{c2}"), stmt_program(place(EXPR_CTX[c2], "E", nested)), 3)
    for n, s in STMT.items():
        for sc in STMT_CTX:
            if sc == "body":
                continue
            for fc in FN_CTX:
                if fc == "fn":
                    continue
                yield Case((f"stmt:{n}", f"sctx:{sc}", f"fctx:{fc}"), stmt_program(s, sc, fc), 3)
    for n, s in STMT.items():
        for sc1 in ("if_then", "elif", "for", "case_block", "while"):
            inner = place(STMT_CTX[sc1], "S", s)
            for sc2 in ("if_else", "for", "case_last", "arrow_block", "while"):
                yield Case((f"stmt:{n}", f"sctx:{sc1}", f"sctx2:{sc2}"), stmt_program(inner, sc2), 3)


def write_base_programs(dirpath, tier):
    """Write the level-1 (quick) / level-1+2 sample (thorough) programs that parse as files, for C10/C11 bases."""
    os.makedirs(dirpath, exist_ok=True)
    for f in os.listdir(dirpath):
        os.remove(os.path.join(dirpath, f))
    out = []
    lvl = 2 if tier == "thorough" else 1
    for i, c in enumerate(enumerate_cases(lvl)):
        if c.level == 2 and i % 7 != 0:
            continue
        p = os.path.join(dirpath, f"g{i:05d}.incn")
        with open(p, "w", encoding="utf-8") as f:
            f.write(c.src)
        out.append(p)
    return out


if __name__ == "__main__":
    import sys

    lv = int(sys.argv[1]) if len(sys.argv) > 1 else 2
    n = 0
    for c in enumerate_cases(lv):
        n += 1
    print(n)
