"""C18 – the language server converges to the latest document text (model checking of the implementation).

Histories: all protocol-legal sequences of didOpen / didChange / didClose for documents A and B (A imports B) up to a
length bound. For each history `ivh lspx` explores every schedule of the real handlers (arrive / poll / drain) with at most
k deviations from the eager-client and lazy-client default schedules, runs each to quiescence and judges it against the
reference model (a dict and max).
"""
import itertools
import json
import os
import subprocess
from multiprocessing import Pool

from . import common

DIR = os.path.join(common.BUILD, "lspx")


def text(doc, tid, imports_b=False):
    """Every text sent is unique (tid = position of the event in the history), independently of its LSP version number."""
    d = doc.lower()
    # line 0 must be the marker declaration (hover probes line 0), so imports go *after* it for A
    body = f"def marker_{d}_t{tid}() -> int:\n    return unknown_{d}_t{tid}\n"
    if imports_b:
        return body + "\n\n" + "from b import helper_b\n"
    return body


def histories(max_len, docs=("A", "B")):
    """All protocol-legal event sequences: open before change/close; versions strictly increase within one open..close
    session; a re-open either continues the numbering or starts again at 1 (both are legal: LSP orders versions only
    within a session, and editors restart at 1); a change either carries a new text or - at most once per history - the
    text the document had two steps earlier in the same session (an undo: the text equals what the server may have stored)."""
    out = []

    def rec(seq, state, nextver, texts, undone):
        if seq:
            out.append(list(seq))
        if len(seq) == max_len:
            return
        k = len(seq)
        for d in docs:
            if state[d] == "closed":
                for v in sorted({nextver[d], 1}):
                    ev = {"op": "open", "doc": d, "ver": v, "text_of": k}
                    rec(seq + [ev], {**state, d: "open"}, {**nextver, d: v + 1}, {**texts, d: [k]}, undone)
            else:
                ev = {"op": "change", "doc": d, "ver": nextver[d], "text_of": k}
                rec(seq + [ev], state, {**nextver, d: nextver[d] + 1}, {**texts, d: texts[d] + [k]}, undone)
                if not undone and len(texts[d]) >= 2:
                    ev = {"op": "change", "doc": d, "ver": nextver[d], "text_of": texts[d][-2]}
                    rec(seq + [ev], state, {**nextver, d: nextver[d] + 1}, {**texts, d: texts[d] + [texts[d][-2]]}, True)
                ev = {"op": "close", "doc": d, "ver": 0, "text_of": None}
                rec(seq + [ev], {**state, d: "closed"}, nextver, {**texts, d: []}, undone)

    rec([], {d: "closed" for d in docs}, {d: 1 for d in docs}, {d: [] for d in docs}, False)
    return out


def materialise(h, broken_b=False, two_imports=False):
    """broken_b: document B's texts do not parse (A's dependency analysis then publishes B's parse errors while holding the
    read guard); B itself is then not judged, A is. Texts are identified by the event that first sent them (text_of)."""
    evs = []
    for e in h:
        t = "" if e["op"] == "close" else text(e["doc"], e["text_of"], imports_b=(e["doc"] == "A"))
        if two_imports and e["doc"] == "A" and t:
            t = t + "from c import helper_c\n"
        if broken_b and e["doc"] == "B" and t:
            t = t + "def broken(:\n"
        evs.append({"op": e["op"], "doc": e["doc"], "ver": e["ver"], "text": t})
    return evs


def _run(args):
    chunk, bound, cap = args
    inp = "\n".join(json.dumps({"id": i, "history": materialise(h, br)}) for i, (h, br) in chunk) + "\n"
    p = subprocess.run([common.IVH, "lspx", "--dir", DIR, "--bound", str(bound), "--cap", str(cap)], input=inp, capture_output=True, text=True, encoding="utf-8")
    if p.returncode != 0:
        raise common.MachineryError(f"ivh lspx failed ({p.returncode}): {p.stderr[-500:]}")
    return [json.loads(l) for l in p.stdout.splitlines() if l.startswith("{")]


def prepare_dir():
    os.makedirs(DIR, exist_ok=True)
    # the on-disk copy of b.incn (used when B is not open in the editor); a.incn exists so that file URIs canonicalise
    open(os.path.join(DIR, "b.incn"), "w").write("pub def helper_b() -> int:\n    return 1\n")
    open(os.path.join(DIR, "a.incn"), "w").write("def on_disk_a() -> int:\n    return 1\n")
    open(os.path.join(DIR, "c.incn"), "w").write("pub def helper_c() -> int:\n    return 2\n")


def classify(v):
    k = v["kind"]
    if k.startswith("MACHINERY"):
        return k
    if "highest version sent" in k:
        return "stale-version-stored"
    if "was closed last but" in k:
        return "closed-document-still-served"
    if "answers as if it were closed" in k:
        return "open-document-lost"
    if "no diagnostics were published" in k:
        return "no-publish-for-latest"
    if "computed from another text" in k:
        return "publish-from-wrong-text"
    if "deadlock" in k:
        return "deadlock"
    return k[:60]


def run(tier):
    common.build()
    prepare_dir()
    out = common.Outcome("C18", tier)
    thorough = tier == "thorough"
    max_len = 5 if thorough else 4
    bound = 4 if thorough else 3
    cap = 300_000 if thorough else 60_000
    base = histories(max_len)
    # the same histories with a B whose texts do not parse (only those that touch B and A)
    # longer single-document histories (document A, which imports the on-disk b.incn): close / re-open cycles need five or
    # more events before a stored version can exceed the version of a re-open
    long_len = 7 if thorough else 5
    single = [h for h in histories(long_len, docs=("A",)) if len(h) > max_len]
    hs = list(enumerate([(h, False) for h in base] + [(h, True) for h in base if {e["doc"] for e in h} == {"A", "B"}] + [(h, False) for h in single]))
    n = common.NCPU
    chunks = [hs[i::n] for i in range(n)]
    with Pool(n) as pool:
        res = pool.map(_run, [(c, bound, cap) for c in chunks if c])
    execs = trans = nontriv = replays = 0
    capped = []
    observations = 0
    samples = []
    by_id = dict(hs)
    for rs in res:
        for r in rs:
            execs += r["executions"]
            trans += r["transitions"]
            nontriv += r["nontrivial"]
            replays += r["replays_checked"]
            observations += r["distinct_observations"]
            if r["capped"]:
                capped.append(r["id"])
            if r.get("sample") and len(samples) < 3:
                samples.append({"history": by_id[r["id"]][0], "broken_b": by_id[r["id"]][1], **r["sample"]})
            for v in r["violations"]:
                if v["kind"].startswith("MACHINERY"):
                    raise common.MachineryError(v["kind"] + " " + json.dumps(v)[:300])
                hist, br = by_id[r["id"]]
                key = classify(v)
                out.fail(key, {"history": materialise(hist, br), "mode": v.get("mode"), "schedule": v.get("schedule"), "deviations": v.get("deviations"), "trace": v.get("trace"), "kind": v["kind"], "observation": v.get("observation")})
    cov = {
        "states": execs,
        "transitions": trans,
        "traces_validated_against_impl": execs,
        "samples": samples or [{"history": hs[0][1][0]}],
        "evaluations": execs,
        "distinct_nontrivial": nontriv,
        "rule": f"all {len(base)} protocol-legal open/change/close histories of length <= {max_len} over documents A (imports B) and B (a re-open continues the version numbering or restarts at 1; a change carries a new text or, once per history, the text of two steps earlier - an undo), all {len(single)} histories of length {max_len + 1}..{long_len} on document A alone, and again with a B that does not parse ({len(hs)} in total); for each, every schedule of "
        f"arrive / poll(woken handler) / drain steps with <= {bound} deviations from the eager-client and from the lazy-client default schedule, each run to quiescence on a fresh "
        "real LspService; states = complete executions (each is a distinct schedule), transitions = arrive/poll/drain steps executed; non-trivial = schedules containing at least "
        "one pending poll (a handler actually suspended at an await point)",
        "exhaustive": not capped,
        "histories": len(hs),
        "deviation_bound": bound,
        "capped_histories": capped,
        "distinct_quiescent_observations_summed": observations,
        "determinism_replays": replays,
    }
    return out.finish(
        cov,
        level="model_checking",
        assumptions=[
            "every execution is an execution of the implementation itself (the real backend, LspService, ClientSocket and tokio RwLock polled by the explorer), so every trace is validated against the implementation by construction",
            "the executor discipline modelled is the framework's: handlers polled on one task, at most 4 in flight, first polls in arrival order, any woken handler may run next",
            "document texts always parse (a version that does not parse keeps the last good AST by design of the server; not judged)",
            "state is observed through completion and hover after quiescence and through the stream of publishDiagnostics",
        ],
    )


def replay(path):
    common.build()
    prepare_dir()
    rec = json.load(open(path, encoding="utf-8"))
    c = rec["case"]
    inp = json.dumps({"id": 0, "history": c["history"]}) + "\n"
    p = subprocess.run(
        [common.IVH, "lspx-one", "--dir", DIR, "--mode", c["mode"], "--schedule", ",".join(str(x) for x in c["schedule"])],
        input=inp,
        capture_output=True,
        text=True,
        encoding="utf-8",
    )
    r = json.loads(p.stdout)
    print(json.dumps(r, indent=1))
    return 1 if r["verdict"] else 0
