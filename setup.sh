#!/bin/sh
# Build everything the checks need, offline, from files on disk only.
set -e
cd "$(dirname "$0")"
. ./env.sh
mkdir -p .build
[ -f harness/Cargo.lock ] || cp /repo/Cargo.lock harness/Cargo.lock
(cd harness && cargo build --release --offline)
(cd /repo && cargo build --release --offline --bin incan)
echo "setup ok"
