"""Shared engine of C08/C09: push every enumerated syntactic program through the real formatter (ivh `fmt` op)."""
import glob

from . import common, corpus, gen, serve


import re

_DOC = re.compile(r'Docstring\("((?:[^"\\]|\\.)*)"\)')


def _strip_doc(m):
    body = m.group(1)
    # outer whitespace of a module docstring is layout (the formatter documents that it trims it)
    while True:
        b = body
        for pre in ("\\n", " ", "\\t"):
            if body.startswith(pre):
                body = body[len(pre):]
            if body.endswith(pre) and not body.endswith("\\" + pre):
                body = body[: -len(pre)]
        if b == body:
            break
    return 'Docstring("' + body + '")'


def norm_sig(s):
    """Documented / spelling-only normalisations applied to span-erased AST renderings before comparison."""
    if s is None:
        return None
    s = _DOC.sub(_strip_doc, s)
    return s.replace('Generic("Tuple", [', "Tuple([").replace("node: Unit,", 'node: Simple("None"),')


def collect(tier):
    level = 3 if tier == "thorough" else 2
    cases = list(gen.enumerate_cases(level))
    # repository sources as additional base programs
    for f in corpus.files():
        try:
            cases.append(gen.Case((f"file:{f[len(common.REPO) + 1:]}",), open(f, encoding="utf-8").read(), 1))
        except OSError:
            pass
    reqs = [{"id": i, "op": "fmt", "src": c.src} for i, c in enumerate(cases)]
    res = serve.run_requests(reqs)
    return cases, [res.get(i, {"crashed": True}) for i in range(len(cases))]


def classify_c08(r):
    """None if the case satisfies C08, else a failure kind."""
    if r.get("crashed"):
        return "formatter-crashed"
    if not r.get("parses"):
        return None  # not in the domain of the property
    if r.get("fmt") != "ok":
        return "fmt-" + str(r.get("fmt"))
    if not r.get("reparses"):
        return "output-does-not-parse"
    if not r.get("same_ast") and norm_sig(r.get("ast_a")) != norm_sig(r.get("ast_b")):
        return "tree-differs"
    return None


def classify_c09(r):
    if r.get("crashed") or not r.get("parses") or r.get("fmt") != "ok":
        return None  # C08's business / outside the domain
    if not r.get("reparses"):
        return None  # only cases whose first format re-parses take part in the idempotence claim
    if r.get("idempotent") is False:
        return "not-idempotent"
    if r.get("idempotent") is None:
        return "second-format-failed"
    if r.get("surface"):
        s = r["surface"][0]
        return "surface:" + ("newline-count" if "newline" in s else ("tab" if "tab" in s else "trailing-whitespace"))
    return None


def attribute(cases, results, classify):
    """Return (failures, stats). failures: list of (key, case_dict) with key = minimal responsible signature."""
    kinds = [classify(r) for r in results]
    l1_fail = {}
    for c, k in zip(cases, kinds):
        if k and len(c.sig) == 1:
            l1_fail[c.sig[0]] = k
    pair_fail = {}
    for c, k in zip(cases, kinds):
        if k and len(c.sig) == 2 and l1_fail.get(c.sig[0]) != k:
            pair_fail[c.sig] = k
    fails = []
    for c, k, r in zip(cases, kinds, results):
        if not k:
            continue
        if l1_fail.get(c.sig[0]) == k:
            key = f"{c.sig[0]}|{k}"
        elif len(c.sig) >= 2 and pair_fail.get(c.sig[:2]) == k:
            key = f"{c.sig[0]}@{c.sig[1]}|{k}"
        else:
            key = "@".join(c.sig) + f"|{k}"
        fails.append((key, len(c.sig), {"sig": list(c.sig), "kind": k, "src": c.src, "out": r.get("out"), "why": r.get("why"), "out2": r.get("out2"), "surface": r.get("surface")}))
    return fails, kinds
