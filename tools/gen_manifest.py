#!/usr/bin/env python3
"""Regenerate /verif/MANIFEST.json from the table below (kept in one place so the manifest is always valid)."""
import json, os
V = os.path.dirname(os.path.dirname(os.path.abspath(__file__)))
props = [json.loads(l) for l in open(os.path.join(V, "properties.jsonl"))]

CHECKS = {
 "C04": dict(engine="ivh", category="exploration", design="DESIGN.md §2 C04",
   technique="bounded exhaustive enumeration of operand pairs over a boundary lattice on the real kernels, CPython as reference",
   text="Every pair of a boundary lattice of i64 / f64 operands (all sign, zero-remainder, MIN/-1/MAX, 2^31/2^32/2^53/2^62 neighbourhoods; thorough adds the dense square [-1024,1024]^2) is evaluated on every entry point of both kernel copies (semantic core, runtime library; generic and suffixed) and compared with CPython's //, %, / and with the defining invariants; every zero divisor must raise exactly the documented ZeroDivisionError and no other pair may fail. This is a complete enumeration of a finite operand space, not a proof for all 2^128 pairs: the kernels are branch-on-sign code, so the lattice is chosen to contain every sign/zero/boundary class.",
   note="Trusts CPython as the reference for Python semantics. Sign of a zero float remainder is not asserted. Operands outside the lattice are not covered."),
 "C05": dict(engine="ivh", category="exploration", design="DESIGN.md §2 C05",
   technique="bounded exhaustive enumeration of (sequence, start, end, step) and range triples on the real kernels, CPython slicing/range as reference",
   text="All strings of <=3 (thorough <=4) scalars over {a, é, 𝄞} and lists of <=4 (5) elements x every index and every (start,end,step) triple from a lattice containing absent, [-6,6] and the i64 extremes, plus every range(a,b,c) over the same lattice observed to a 20-element horizon under a watchdog, are evaluated on both copies of the real helpers and compared with CPython's own slicing, indexing and range, including the documented error texts.",
   note="Trusts CPython. Sequences longer than the bound and scalars outside the 3-letter alphabet (1-, 2- and 4-byte UTF-8) are not covered."),
 "C19": dict(engine="ivh", category="exploration", design="DESIGN.md §2 C19",
   technique="bounded exhaustive enumeration of documents x offsets x positions x spans on the real conversion functions, naive counting as reference",
   text="All documents of <=5 (thorough <=7) scalars over {a, é, 𝄞, LF, CR, space} x every byte offset (boundary, non-boundary, past the end), every position of the bounding box, and every span (empty, reversed, past the end) are pushed through offset_to_position, position_to_offset, span_to_range, compile_error_to_diagnostic and format_error; round trip, strict monotonicity, agreement with counting newlines/characters, in-document ranges with start<=end and absence of panics are checked on every one.",
   note="Reference is counting '\\n' and chars in the prefix; LSP 'character' is taken as Unicode scalars as the module documents. Longer documents are not covered."),
}

checks = []
for p in props:
    c = CHECKS.get(p["id"])
    if not c: continue
    checks.append({
        "property_id": p["id"],
        "quick_cmd": f"./check {p['id']} --tier quick",
        "thorough_cmd": f"./check {p['id']} --tier thorough",
        "evidence_file": f"/verif/evidence/{p['id']}.json",
        "replay_cmd_template": f"./check {p['id']} --replay {{path}}",
        "engine": c["engine"],
        "level_claimed": {"category": c["category"], "text": c["text"], "design_ref": c["design"]},
        "level_note": c["note"],
        "technique": c["technique"],
    })
na = [{"property_id": p["id"], "reason": "check not built yet in this revision of /verif (planned in DESIGN.md §2; bounded exhaustive exploration applies)"}
      for p in props if p["id"] not in CHECKS]
m = {
 "version": 1,
 "setup_cmd": "./setup.sh",
 "hooks": {"guard": "incan_verif", "enable": "none needed: no source hooks exist; every entry point used is already public (RUSTFLAGS=\"--cfg incan_verif\" is reserved)",
           "baseline_off_cmd": "cd /repo && cargo test --workspace --no-fail-fast --offline", "source_commits": [], "add_only": True},
 "engines": [
   {"name": "ivh", "path": "/verif/harness", "serves_properties": sorted(k for k, v in CHECKS.items() if v["engine"] == "ivh"),
    "kind_free_text": "in-process Rust harness linked against /repo's crates; enumerates bounded spaces completely and evaluates the real code on every case"},
 ],
 "checks": checks,
 "not_applicable": na,
 "notes": "Every check rebuilds the harness (path dependencies on /repo) before running, so it always sees the current working tree. Known findings: /verif/known_findings.txt.",
}
json.dump(m, open(os.path.join(V, "MANIFEST.json"), "w"), indent=1, ensure_ascii=False)
print("checks:", [c["property_id"] for c in checks], "not_applicable:", len(na))
