#!/bin/sh
# usage: mk_worktree.sh <name>   -> creates /tmp/wt-<name> with a warm target copy
set -e
d=/tmp/wt-$1
git -C /repo worktree add --detach "$d" HEAD >/dev/null 2>&1
mkdir -p "$d/target"
cp -r /repo/target/debug "$d/target/debug"
echo "$d"
