//! C11: the front end is total and its diagnostics are well-formed – bounded exhaustive enumeration of inputs.
//!
//! Modes:
//!   chunks      all strings of <= N chunks over a 32-chunk alphabet
//!   neighbours  for each corpus file: every prefix, every single-char deletion, every chunk inserted at every token
//!               boundary (strides configurable)
//!   nest        nesting ladders up to a depth (run in a child process by the caller: a stack overflow kills it)
//! Every input runs through `frontend::pipeline` (lex, parse, check, format, emit – each under catch_unwind); the
//! first problem per input is printed as a JSON line `{"input":..,"problem":..,"mode":..}`; a summary line ends the run.
use crate::frontend::pipeline;
use crate::util::{Shard, arg, arg_usize, in_flight, jstr, start_watchdog};
use std::collections::HashSet;
use std::hash::{Hash, Hasher};
use std::io::Write;
use tower_lsp::lsp_types::Url;

pub const CHUNKS: [&str; 32] = [
    "(", ")", "[", "]", "{", "}", ":", "::", ",", ".", "=", "=>", "->", "\"", "f\"", "b\"", "\"\"\"", "\\", "\n",
    "    ", "é", "0", "-", "?", "@", "def", " x", "x:int", "\"s\"", "f\"{x}\"", "def f() -> int:",
    "match x:\n    case ",
];

#[derive(Default)]
struct Tally {
    inputs: u64,
    lex_ok: u64,
    parse_ok: u64,
    check_ok: u64,
    emit_ok: u64,
    fmt_ok: u64,
    problems: u64,
    outcomes: HashSet<u64>,
}

fn norm_msg(m: &str) -> String {
    // strip quoted names and digits so that messages group by kind
    let mut out = String::new();
    let mut in_q = false;
    for c in m.chars() {
        if c == '\'' {
            in_q = !in_q;
            out.push('\'');
            continue;
        }
        if in_q || c.is_ascii_digit() {
            continue;
        }
        out.push(c);
    }
    out
}

fn run_one(src: &str, mode: &str, uri: &Url, t: &mut Tally, out: &mut impl Write) {
    in_flight(|| format!("{mode}\t{}", jstr(src)));
    t.inputs += 1;
    let p = pipeline(src, uri, true);
    if p.lex.status == "ok" {
        t.lex_ok += 1;
    }
    if p.parse.status == "ok" {
        t.parse_ok += 1;
    }
    if p.check.status == "ok" {
        t.check_ok += 1;
    }
    if p.emit.status == "ok" {
        t.emit_ok += 1;
    }
    if p.fmt.status == "ok" {
        t.fmt_ok += 1;
    }
    let mut h = std::collections::hash_map::DefaultHasher::new();
    (p.lex.status, p.parse.status, p.check.status, p.emit.status, p.fmt.status).hash(&mut h);
    for st in [&p.lex, &p.parse, &p.check] {
        if let Some((m, _, _)) = st.errs.first() {
            norm_msg(m).hash(&mut h);
        }
    }
    t.outcomes.insert(h.finish());
    if let Some(prob) = &p.problem {
        t.problems += 1;
        if t.problems <= 2000 {
            let _ = writeln!(out, "{{\"mode\":{},\"input\":{},\"problem\":{}}}", jstr(mode), jstr(src), jstr(prob));
        }
    }
}

fn summary(t: &Tally, out: &mut impl Write) {
    let _ = writeln!(
        out,
        "{{\"summary\":true,\"inputs\":{},\"lex_ok\":{},\"parse_ok\":{},\"check_ok\":{},\"emit_ok\":{},\"fmt_ok\":{},\"problems\":{},\"outcomes\":[{}]}}",
        t.inputs,
        t.lex_ok,
        t.parse_ok,
        t.check_ok,
        t.emit_ok,
        t.fmt_ok,
        t.problems,
        t.outcomes.iter().map(|x| x.to_string()).collect::<Vec<_>>().join(",")
    );
}

pub fn run_total(args: &[String]) {
    let mode = arg(args, "--mode").unwrap_or_else(|| "chunks".to_string());
    let shard = Shard::from_args(args);
    let uri = Url::parse("file:///f.incn").expect("url");
    let stdout = std::io::stdout();
    let mut out = stdout.lock();
    let mut t = Tally::default();
    start_watchdog(30);
    match mode.as_str() {
        "chunks" => {
            let max = arg_usize(args, "--max", 4);
            let mut k: u64 = 0;
            let mut buf = String::new();
            for len in 0..=max {
                let n = 32u64.pow(len as u32);
                for idx in 0..n {
                    k += 1;
                    if !shard.mine(k) {
                        continue;
                    }
                    buf.clear();
                    let mut x = idx;
                    for _ in 0..len {
                        buf.push_str(CHUNKS[(x % 32) as usize]);
                        x /= 32;
                    }
                    run_one(&buf, "chunks", &uri, &mut t, &mut out);
                }
            }
        }
        "neighbours" => {
            let list = arg(args, "--files").expect("--files <list>");
            let sc = arg_usize(args, "--stride-char", 1);
            let st = arg_usize(args, "--stride-tok", 1);
            let files: Vec<String> = std::fs::read_to_string(&list).expect("list").lines().map(|s| s.to_string()).collect();
            let mut k: u64 = 0;
            for f in &files {
                let Ok(src) = std::fs::read_to_string(f) else { continue };
                // the unmodified file
                k += 1;
                if shard.mine(k) {
                    run_one(&src, "file", &uri, &mut t, &mut out);
                }
                let bounds: Vec<usize> = (0..=src.len()).filter(|&o| src.is_char_boundary(o)).collect();
                for (bi, &o) in bounds.iter().enumerate() {
                    if bi % sc != 0 {
                        continue;
                    }
                    k += 1;
                    if shard.mine(k) {
                        run_one(&src[..o], "prefix", &uri, &mut t, &mut out);
                    }
                    if bi + 1 < bounds.len() {
                        k += 1;
                        if shard.mine(k) {
                            let mut d = String::with_capacity(src.len());
                            d.push_str(&src[..o]);
                            d.push_str(&src[bounds[bi + 1]..]);
                            run_one(&d, "delete", &uri, &mut t, &mut out);
                        }
                    }
                }
                // token boundaries from the real lexer
                let mut tb: Vec<usize> = match incan::frontend::lexer::lex(&src) {
                    Ok(toks) => toks.iter().flat_map(|t| [t.span.start, t.span.end]).filter(|&o| o <= src.len() && src.is_char_boundary(o)).collect(),
                    Err(_) => vec![],
                };
                tb.sort();
                tb.dedup();
                // token-level edits: delete every run of 1, 2 and 3 consecutive tokens, duplicate every token, swap
                // every pair of adjacent tokens (garbled-but-plausible programs: `Result[int, str]` -> `Result[int]`)
                let spans: Vec<(usize, usize)> = match incan::frontend::lexer::lex(&src) {
                    Ok(toks) => toks
                        .iter()
                        .map(|t| (t.span.start, t.span.end))
                        .filter(|&(a, b)| a < b && b <= src.len() && src.is_char_boundary(a) && src.is_char_boundary(b))
                        .collect(),
                    Err(_) => vec![],
                };
                for (ti, &(a, _)) in spans.iter().enumerate() {
                    if ti % st != 0 {
                        continue;
                    }
                    for run in 1..=3usize {
                        if ti + run > spans.len() {
                            break;
                        }
                        let b = spans[ti + run - 1].1;
                        if b < a {
                            continue;
                        }
                        k += 1;
                        if shard.mine(k) {
                            let mut d = String::with_capacity(src.len());
                            d.push_str(&src[..a]);
                            d.push_str(&src[b..]);
                            run_one(&d, "delete-tokens", &uri, &mut t, &mut out);
                        }
                    }
                    let (ta, tb_) = spans[ti];
                    k += 1;
                    if shard.mine(k) {
                        let mut d = String::with_capacity(src.len() + (tb_ - ta) + 1);
                        d.push_str(&src[..tb_]);
                        d.push(' ');
                        d.push_str(&src[ta..tb_]);
                        d.push_str(&src[tb_..]);
                        run_one(&d, "duplicate-token", &uri, &mut t, &mut out);
                    }
                    if ti + 1 < spans.len() {
                        let (na, nb) = spans[ti + 1];
                        if na >= tb_ {
                            k += 1;
                            if shard.mine(k) {
                                let mut d = String::with_capacity(src.len());
                                d.push_str(&src[..ta]);
                                d.push_str(&src[na..nb]);
                                d.push_str(&src[tb_..na]);
                                d.push_str(&src[ta..tb_]);
                                d.push_str(&src[nb..]);
                                run_one(&d, "swap-tokens", &uri, &mut t, &mut out);
                            }
                        }
                    }
                }
                for (ti, &o) in tb.iter().enumerate() {
                    if ti % st != 0 {
                        continue;
                    }
                    for c in CHUNKS {
                        k += 1;
                        if shard.mine(k) {
                            let mut d = String::with_capacity(src.len() + c.len());
                            d.push_str(&src[..o]);
                            d.push_str(c);
                            d.push_str(&src[o..]);
                            run_one(&d, "insert", &uri, &mut t, &mut out);
                        }
                    }
                }
            }
        }
        "nest" => {
            let depth = arg_usize(args, "--depth", 64);
            let w = |stmt: String| format!("def f() -> None:\n    {stmt}\n");
            for d in 1..=depth {
                for (open, close) in [("(", ")"), ("[", "]"), ("{", "}")] {
                    run_one(&w(format!("x = {}1{}", open.repeat(d), close.repeat(d))), "nest-brackets", &uri, &mut t, &mut out);
                    run_one(&w(format!("x = {}1", open.repeat(d))), "nest-unclosed", &uri, &mut t, &mut out);
                    run_one(&w(format!("x = 1{}", close.repeat(d))), "nest-unopened", &uri, &mut t, &mut out);
                }
                // unary chains, not chains
                run_one(&w(format!("x = {}1", "-".repeat(d))), "nest-unary", &uri, &mut t, &mut out);
                run_one(&w(format!("x = {}True", "not ".repeat(d))), "nest-not", &uri, &mut t, &mut out);
                // nested blocks
                let mut s = String::from("def f() -> None:\n");
                for i in 0..d {
                    s.push_str(&"    ".repeat(i + 1));
                    s.push_str("if True:\n");
                }
                s.push_str(&"    ".repeat(d + 1));
                s.push_str("pass\n");
                run_one(&s, "nest-blocks", &uri, &mut t, &mut out);
                // nested f-string parens, list types, calls, binary chains, field / index chains, nested lists
                run_one(&w(format!("x = f\"{{{}1{}}}\"", "(".repeat(d), ")".repeat(d))), "nest-fstring", &uri, &mut t, &mut out);
                run_one(&w(format!("x: {}int{} = y", "List[".repeat(d), "]".repeat(d))), "nest-type", &uri, &mut t, &mut out);
                run_one(&w(format!("x = {}1{}", "g(".repeat(d), ")".repeat(d))), "nest-call", &uri, &mut t, &mut out);
                run_one(&w(format!("x = 1{}", " + 1".repeat(d))), "chain-binary", &uri, &mut t, &mut out);
                run_one(&w(format!("x = 2{}", " ** 2".repeat(d))), "chain-pow", &uri, &mut t, &mut out);
                run_one(&w(format!("x = a{}", ".b".repeat(d))), "chain-field", &uri, &mut t, &mut out);
                run_one(&w(format!("x = a{}", "[0]".repeat(d))), "chain-index", &uri, &mut t, &mut out);
                run_one(&w(format!("x = 1{}", " if True else 2".repeat(d))), "chain-ternary", &uri, &mut t, &mut out);
                run_one(&w(format!("x = {}1{}", "Some(".repeat(d), ")".repeat(d))), "nest-some", &uri, &mut t, &mut out);
            }
        }
        "literals" => {
            // odd literal / identifier tokens in every simple expression, pattern, type and declaration position
            let toks: Vec<String> = [
                "1e999", "1e-999", "-1e999", "1e308", "1.7976931348623157e308", "4.9e-324", "99999999999999999999",
                "9223372036854775808", "-9223372036854775808", "-9223372036854775809", "0x", "0xff", "0b2", "0o7", "1__0",
                "1_", "_1", "1.", ".5", "1e", "1e+", "1.5.2", "00", "01", "0.0000000000000000000000000000000000000001",
                "1_000_000_000_000_000_000_000", "\"\\u{110000}\"", "\"\\x\"", "\"\\\"", "b\"\\xZZ\"", "b\"é\"", "f\"{\"",
                "f\"{}\"", "f\"{a!r}\"", "f\"{a:>10}\"", "f\"{a:.2f}\"", "f\"{{\"", "f\"}\"", "f\"{f\\\"x\\\"}\"", "f\"{'a'}\"",
                "f\"{a[\\\"k\\\"]}\"", "变量", "é", "x😀", "𝄞", "__", "_", "self", "Self", "None", "True", "true", "type", "match",
                "case", "async", "await", "yield", "pub", "mut", "let", "in", "is", "not", "and", "r\"raw\"", "\"\"\"doc\"\"\"",
                "'''x'''", "\"a\" \"b\"", "1if", "1 if 2 else 3", "lambda: 1", "*a", "**a", "a.0.0", "a.1e5", "a?.b", "a??",
                "..", "..=", "0..", "..5", "a..b..c", "->", "=>", "@", "$", "`", "\\", ";", "1;2",
            ]
            .into_iter()
            .map(|s| s.to_string())
            .collect();
            // every escape introducer x what follows it (nothing, a multi-byte scalar of each width, alone or after one
            // ASCII digit, a non-hex letter, well-formed digits) x every string prefix and quote
            let mut toks = toks;
            for open in ["\"", "b\"", "f\"", "r\"", "'", "b'", "rb\""] {
                let close = if open.ends_with('\'') { "'" } else { "\"" };
                for esc in ["\\x", "\\u{", "\\u", "\\", "\\N{", "\\0", "\\U"] {
                    for follow in ["", "4é", "é", "€", "😀", "4€", "4😀", "zz", "41", "41}", "é}", "4", "{", "}"] {
                        toks.push(format!("{open}{esc}{follow}{close}"));
                        toks.push(format!("{open}a{esc}{follow}"));
                    }
                }
            }
            let long_ident = "a".repeat(5000);
            let ctxs: Vec<&str> = vec![
                "def f() -> None:\n    x = {T}\n",
                "const K = {T}\n",
                "const K: int = {T}\n",
                "def f() -> None:\n    print({T})\n",
                "def f() -> None:\n    x = xs[{T}]\n",
                "def f() -> None:\n    x = xs[{T}:{T}:{T}]\n",
                "def f() -> None:\n    match x:\n        case {T}:\n            pass\n        case _:\n            pass\n",
                "def f(a: int = {T}) -> None:\n    pass\n",
                "def f(a: {T}) -> {T}:\n    pass\n",
                "def {T}() -> None:\n    pass\n",
                "model {T}:\n    {T}: int\n",
                "enum E:\n    {T}\n",
                "import {T}\n",
                "from {T} import {T}\n",
                "@{T}\ndef f() -> None:\n    pass\n",
                "def f() -> None:\n    x = f\"{{T}}\"\n",
                "def f() -> None:\n    x = {T} + {T} * -{T}\n",
                "def f() -> None:\n    x = {T}.{T}\n",
                "def f() -> None:\n    {T} = 1\n",
                "def f() -> None:\n    {T} += 1\n",
                "def f() -> None:\n    for {T} in {T}:\n        pass\n",
                "type N = newtype {T}\n",
                "def f() -> None:\n    x = [{T} for {T} in {T} if {T}]\n",
                "def f() -> None:\n    x = ({T}) => {T}\n",
                "def f() -> None:\n    x = {{T}: {T}}\n",
                "def f() -> None:\n    return {T}\n",
            ];
            let mut k: u64 = 0;
            for tk in toks.iter().chain(std::iter::once(&long_ident)) {
                for c in &ctxs {
                    k += 1;
                    if shard.mine(k) {
                        run_one(&c.replace("{T}", tk), "literals", &uri, &mut t, &mut out);
                    }
                }
            }
        }
        "arity" => {
            // every generic type name with every argument count 0..4 (and bare), consumed in every way a value can be consumed
            let names = [
                "Result", "Option", "List", "Dict", "Set", "Tuple", "FrozenList", "FrozenSet", "FrozenDict", "Callable", "int", "str", "Box", "Nope",
            ];
            let arglists = ["", "[]", "[int]", "[int, str]", "[int, str, bool]", "[int, str, bool, float]", "[Result[int]]", "[[int], int]"];
            let prelude = "model Box[T]:\n    v: T\n\n\n";
            let uses: Vec<&str> = vec![
                "def f(v: {T}) -> None:\n    match v:\n        case Ok(a):\n            pass\n        case Err(e):\n            pass\n",
                "def f(v: {T}) -> None:\n    match v:\n        case Err(e):\n            pass\n        case _:\n            pass\n",
                "def f(v: {T}) -> None:\n    match v:\n        case Ok(a, b):\n            pass\n        case Err():\n            pass\n",
                "def f(v: {T}) -> None:\n    match v:\n        case Some(a):\n            pass\n        case None:\n            pass\n",
                "def f(v: {T}) -> None:\n    match v:\n        case (a, b):\n            pass\n        case _:\n            pass\n",
                "def f(v: {T}) -> None:\n    match v:\n        case (a, b, c, d, e):\n            pass\n        case _:\n            pass\n",
                "def f(v: {T}) -> None:\n    match v:\n        case Box(v=a):\n            pass\n        case Box(a):\n            pass\n        case 1:\n            pass\n        case \"s\":\n            pass\n",
                "def f(v: {T}) -> Result[int, str]:\n    x = v?\n    return Ok(1)\n",
                "def f(v: {T}) -> {T}:\n    x = v?\n    return v\n",
                "def f(v: {T}) -> Option[int]:\n    x = v?\n    return None\n",
                "def f(v: {T}) -> None:\n    for a in v:\n        pass\n",
                "def f(v: {T}) -> None:\n    for a, b in v:\n        pass\n",
                "def f(v: {T}) -> None:\n    x = v[0]\n    y = v[\"k\"]\n    z = v[0:1]\n",
                "def f(mut v: {T}) -> None:\n    v[0] = 1\n    v[\"k\"] = 1\n",
                "def f(v: {T}) -> None:\n    a = v.unwrap()\n    b = v.unwrap_or(1)\n    c = v.is_ok()\n    d = v.is_some()\n    e = v.map((q) => q)\n",
                "def f(mut v: {T}) -> None:\n    v.append(1)\n    a = v.get(0)\n    b = v.len()\n    c = v.keys()\n    d = v.values()\n    e = v.items()\n    g = v.pop()\n",
                "def f(v: {T}) -> None:\n    a, b = v\n",
                "def f(v: {T}) -> None:\n    a, b, c = v\n",
                "def f(v: {T}) -> None:\n    x = v.0\n    y = v.1\n    z = v.2\n    w = v.9\n",
                "def f(v: {T}) -> None:\n    x = v.v\n    y = v.nope\n",
                "def f() -> {T}:\n    return Ok(1)\n",
                "def f() -> {T}:\n    return Err(\"e\")\n",
                "def f() -> {T}:\n    return Some(1)\n",
                "def f() -> {T}:\n    return None\n",
                "def f() -> {T}:\n    return [1]\n",
                "def f() -> {T}:\n    return {}\n",
                "def f() -> {T}:\n    return {1: \"a\"}\n",
                "def f() -> {T}:\n    return {1}\n",
                "def f() -> {T}:\n    return (1, \"a\")\n",
                "def f() -> {T}:\n    return (a) => a\n",
                "def f() -> {T}:\n    return Box(v=1)\n",
                "def f() -> None:\n    x: {T} = Ok(1)\n    y: {T} = Err(\"e\")\n    z: {T} = Some(1)\n    w: {T} = None\n    u: {T} = []\n    t: {T} = (1, 2)\n",
                "model M:\n    a: {T}\n\n\ndef f(m: M) -> None:\n    match m.a:\n        case Ok(q):\n            pass\n        case Err(e):\n            pass\n        case Some(r):\n            pass\n",
                "class C:\n    a: {T}\n\n    def g(self) -> {T}:\n        return self.a\n",
                "enum E:\n    A({T})\n    B({T}, {T})\n\n\ndef f(e: E) -> None:\n    match e:\n        case E.A(Err(q)):\n            pass\n        case E.B(Ok(a), Some(b)):\n            pass\n        case _:\n            pass\n",
                "type N = newtype {T}\n\n\ndef f(n: N) -> None:\n    x = n.0\n",
                "def f(v: {T}) -> None:\n    x = [a for a in v]\n    y = {a: a for a in v}\n    z = [a for a, b in v]\n",
                "def f(v: {T}) -> None:\n    if v:\n        pass\n    x = v == v\n    y = v + v\n    z = len(v)\n    w = f\"{v}\"\n    u = 1 in v\n    t = not v\n    s = -v\n",
                "def f(v: {T}) -> None:\n    x = v(1)\n    y = v(1, 2)\n    z = v()\n",
                "def g(v: {T}) -> None:\n    pass\n\n\ndef f() -> None:\n    g(Ok(1))\n    g(Err(\"e\"))\n    g(None)\n    g([1])\n    g((1, 2))\n    g((a) => a)\n",
                "def f(v: List[{T}]) -> None:\n    for r in v:\n        match r:\n            case Err(e):\n                pass\n            case Ok(a):\n                pass\n            case Some(b):\n                pass\n",
                "def f(v: Dict[str, {T}]) -> None:\n    match v[\"k\"]:\n        case Err(e):\n            pass\n        case _:\n            pass\n",
                "def f(v: Option[{T}]) -> None:\n    match v:\n        case Some(Err(e)):\n            pass\n        case Some(Ok(a)):\n            pass\n        case Some((a, b)):\n            pass\n        case None:\n            pass\n",
                "trait Tr:\n    def m(self) -> {T}\n\n\nclass K with Tr:\n    def m(self) -> {T}:\n        return Ok(1)\n",
                "const K: {T} = [1, 2]\n",
                "async def f(v: {T}) -> {T}:\n    x = await v\n    return x\n",
            ];
            let mut k: u64 = 0;
            for nm in names {
                for al in arglists {
                    let ty = format!("{nm}{al}");
                    for u in &uses {
                        k += 1;
                        if shard.mine(k) {
                            run_one(&format!("{prelude}{}", u.replace("{T}", &ty)), "arity", &uri, &mut t, &mut out);
                        }
                    }
                }
            }
        }
        "idents" => {
            // one representative per Unicode class as an identifier character (alone, as a suffix, in the middle), used
            // consistently in every binding position of a program that is otherwise well typed: whatever the lexer decides,
            // every later stage (incl. code generation) must cope with the names it let through
            let chars: Vec<char> = vec![
                'é', 'ß', 'Ω', 'ж', '变', 'ñ', 'ǅ', 'ʰ', 'ª', // letters: Ll Lu Lo Lt Lm
                '٣', '९', '０', // decimal digits outside ASCII (Nd)
                '²', '½', '①', '⑴', '㊿', '𝟘', // other numbers (No) and mathematical digits
                'Ⅷ', 'ⅷ', '〇', // letter numbers (Nl)
                '\u{0301}', '\u{093e}', '\u{20dd}', // combining marks Mn Mc Me
                '‿', '⁀', '＿', // connector punctuation (Pc)
                'Ⓐ', '℮', '™', '°', '€', '±', '√', '∞', // symbols So Sm Sc
                '😀', '𝄞', '🇫', // astral symbols
                '\u{200d}', '\u{200c}', '\u{00ad}', '\u{feff}', '\u{2060}', // format characters (Cf)
                '\u{00a0}', '\u{3000}', '\u{2028}', // spaces / separators
                '·', '\u{0387}', '\u{1369}', // Other_ID_Continue
                '$', '@', '?', '!', '`', '\'', // ASCII punctuation some languages allow
            ];
            let tpl = "model M{N}:\n    f{N}: int\n\n\nenum E{N}:\n    V{N}\n    W{N}(int)\n\n\ndef g{N}(p{N}: int) -> int:\n    v{N} = p{N} + 1\n    m = M{N}(f{N}=v{N})\n    for i{N} in range(2):\n        pass\n    match E{N}.W{N}(1):\n        case E{N}.W{N}(b{N}):\n            return b{N} + m.f{N}\n        case _:\n            return v{N}\n\n\ndef main() -> None:\n    println(g{N}(1))\n";
            let mut k: u64 = 0;
            for ch in chars {
                for name in [format!("a{ch}"), format!("a{ch}b"), format!("{ch}"), format!("{ch}a"), format!("a{ch}{ch}")] {
                    k += 1;
                    if shard.mine(k) {
                        run_one(&tpl.replace("{N}", &name), "idents", &uri, &mut t, &mut out);
                    }
                }
            }
        }
        "stdin" => {
            // one JSON string per line
            let stdin = std::io::stdin();
            for line in std::io::BufRead::lines(stdin.lock()) {
                let Ok(line) = line else { break };
                if let Ok(s) = serde_json::from_str::<String>(&line) {
                    run_one(&s, "stdin", &uri, &mut t, &mut out);
                }
            }
        }
        other => {
            eprintln!("unknown mode {other}");
            std::process::exit(2);
        }
    }
    summary(&t, &mut out);
}
