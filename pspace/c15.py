"""C15 – the generated Cargo project declares exactly what the code needs, pinned.

All subsets of feature-triggering constructs x `rust::` import sets x import forms x project names. The real `incan build`
writes the project (a no-op `cargo` is first on PATH); the Cargo.toml must parse, name package and binary after the file,
pin every dependency (version or path, never `*`), and declare exactly the external crates the generated Rust refers to
(plus the two always-present runtime crates). A crate without a known-good version must be refused. Subsets whose crates
are in the offline registry are also really built (sufficiency).
"""
import itertools
import json
import os
import re
import shutil
import subprocess
import tomllib
from multiprocessing.pool import ThreadPool

from . import common, pipe

FAKE = os.path.join(common.VERIF, "shim", "fake-cargo")
ALWAYS = {"incan_stdlib", "incan_derive"}

TRIGGERS = {
    "derive_serialize": ("@derive(Serialize)\nmodel TSer:\n    x: int\n", ""),
    "derive_deserialize": ("@derive(Deserialize)\nmodel TDe:\n    x: int\n", ""),
    "derive_both_merged": ("@derive(Debug, Serialize, Deserialize)\nmodel TBoth:\n    x: int\n", ""),
    "derive_stacked_second": ("@derive(Debug, Clone)\n@derive(Serialize, Deserialize)\nmodel TStack:\n    x: int\n", ""),
    "derive_on_class": ("@derive(Serialize)\nclass TCls:\n    x: int\n", ""),
    "json_stringify_call": ("@derive(Serialize)\nmodel TJ:\n    x: int\n", "    println(json_stringify(TJ(x=1)))\n"),
    "async_fn": ("async def work() -> int:\n    return 1\n", ""),
    "plain_model": ("model TPlain:\n    x: int\n", "    println(TPlain(x=1).x)\n"),
    "collections": ("", "    d = {\"a\": 1}\n    s = {1, 2}\n    println(len(d) + len(s))\n"),
    # web feature (axum + tokio; the emitter also writes serde imports for web programs): third element = import header
    "web_route": ('@route("/")\nasync def index() -> Response:\n    return Response.html("<h1>hello</h1>")\n', "    app = App()\n    app.run(port=8080)\n", "from web import App, route, Response"),
    "web_import_only": ("", "    app = App()\n    println(1)\n", "from web import App"),
}
KNOWN = ["serde_json", "regex", "rand", "chrono", "uuid", "anyhow", "itertools", "log"]
FORMS = {
    "import_crate": "import rust::{C}",
    "import_item": "import rust::{C}::{I}",
    "from_import": "from rust::{C} import {I}",
    "import_alias": "import rust::{C} as {C}_alias",
}
ITEM = {"serde_json": "Value", "regex": "Regex", "rand": "Rng", "chrono": "Utc", "uuid": "Uuid", "anyhow": "Error", "itertools": "Itertools", "log": "Level", "std": "collections", "foo_unknown_crate": "Thing", "axum": "Router", "hyper": "Body", "tower": "Service"}
NAMES = ["p", "my_prog", "my-prog", "Prog", "p2", "test", "serde", "incan_stdlib", "match", "main", "x" * 40]


def cases(tier):
    out = []
    trig = list(TRIGGERS)
    # every subset of triggers of size <= 2 (quick) / <= 3 (thorough), without rust imports
    for k in range(0, 3 if tier != "thorough" else 4):
        for sub in itertools.combinations(trig, k):
            out.append({"triggers": sub, "imports": (), "name": "prog"})
    # rust imports: each known crate x each form; pairs; std; crate also implied by a feature
    for c in KNOWN:
        for f in FORMS:
            out.append({"triggers": (), "imports": ((c, f),), "name": "prog"})
    for a, b in itertools.combinations(KNOWN[:5], 2):
        out.append({"triggers": (), "imports": ((a, "import_crate"), (b, "from_import")), "name": "prog"})
    out.append({"triggers": (), "imports": (("std", "from_import"),), "name": "prog"})
    for t in ("derive_serialize", "derive_stacked_second", "json_stringify_call"):
        out.append({"triggers": (t,), "imports": (("serde_json", "import_crate"),), "name": "prog"})
        out.append({"triggers": (t,), "imports": (("regex", "from_import"), ("serde_json", "from_import")), "name": "prog"})
    # unknown crate in every form, alone and next to a known crate
    for f in FORMS:
        out.append({"triggers": (), "imports": (("foo_unknown_crate", f),), "name": "prog", "expect_refused": True})
        out.append({"triggers": ("derive_serialize",), "imports": (("regex", "import_crate"), ("foo_unknown_crate", f)), "name": "prog", "expect_refused": True})
    # crates without a known-good version that the generator itself knows by name (a feature pins them) or that live next
    # to such a feature: refused whatever other feature is on (web + an explicit axum import is not specified: left out)
    for c in ("axum", "hyper", "tower", "foo_unknown_crate"):
        for f in ("import_crate", "from_import"):
            for trg in ((), ("async_fn",), ("derive_serialize",), ("async_fn", "derive_serialize"), ("web_import_only",), ("web_route",)):
                if c == "axum" and any(t.startswith("web") for t in trg) or (c == "foo_unknown_crate" and not trg):
                    continue
                out.append({"triggers": trg, "imports": ((c, f),), "name": "prog", "expect_refused": True})
    out.append({"triggers": ("async_fn",), "imports": (("axum", "from_import"),), "name": "prog", "expect_refused": True, "where": "dep"})
    # the same feature triggers / imports living in a dependency module instead of the entry file
    for t in ("derive_serialize", "json_stringify_call", "async_fn", "web_route", "collections"):
        out.append({"triggers": (t,), "imports": (), "name": "prog", "where": "dep"})
    for c in ("regex", "serde_json", "rand"):
        out.append({"triggers": (), "imports": ((c, "from_import"),), "name": "prog", "where": "dep"})
    # two dependency modules, each with its own trigger / import, imported by the entry file in either order
    firsts = [(("web_route",), ()), (("derive_serialize",), ()), (("async_fn",), ()), (("collections",), ())]
    seconds = [((), (("regex", "from_import"),)), ((), (("rand", "from_import"),)), (("json_stringify_call",), ()), (("web_import_only",), ())]
    for (t1, i1), (t2, i2) in itertools.product(firsts, seconds):
        for order in ("ab", "ba"):
            out.append({"triggers": t1 + t2, "imports": i1 + i2, "name": "prog", "where": "dep2", "parts": [{"triggers": t1, "imports": i1}, {"triggers": t2, "imports": i2}], "order": order})
    # project names
    for n in NAMES:
        out.append({"triggers": ("derive_serialize",), "imports": (("regex", "import_crate"),), "name": n})
        out.append({"triggers": (), "imports": (), "name": n})
    return out


def source(case):
    imps = []
    for c, f in case["imports"]:
        imps.append(FORMS[f].replace("{C}", c).replace("{I}", ITEM.get(c, "Item")))
    for t in case["triggers"]:
        if len(TRIGGERS[t]) > 2 and TRIGGERS[t][2] not in imps:
            imps.append(TRIGGERS[t][2])
    decls = [TRIGGERS[t][0] for t in case["triggers"] if TRIGGERS[t][0]]
    body = "".join(TRIGGERS[t][1] for t in case["triggers"]) or "    pass\n"
    if case.get("where") == "dep":
        return "from featlib import lib_entry\n\n\ndef main() -> None:\n    lib_entry()\n"
    if case.get("where") == "dep2":
        lines = ["from featlib import lib_entry", "from featlib2 import lib_entry2"]
        if case["order"] == "ba":
            lines.reverse()
        return "\n".join(lines) + "\n\n\ndef main() -> None:\n    lib_entry()\n    lib_entry2()\n"
    return ("\n".join(imps) + "\n\n\n" if imps else "") + "\n\n".join(decls) + ("\n\n" if decls else "") + "def main() -> None:\n" + body


def dep_source(case):
    """For where == "dep": the module featlib.incn that holds the triggers / rust imports; main only calls into it."""
    main_like = source({**case, "where": "main"})
    return main_like.replace("def main() -> None:", "pub def lib_entry() -> None:")


def strip_strings_comments(rs):
    out, i, n = [], 0, len(rs)
    while i < n:
        c = rs[i]
        if rs.startswith("//", i):
            j = rs.find("\n", i)
            i = n if j < 0 else j
        elif rs.startswith("/*", i):
            j = rs.find("*/", i + 2)
            i = n if j < 0 else j + 2
        elif c == '"':
            i += 1
            while i < n and rs[i] != '"':
                i += 2 if rs[i] == "\\" else 1
            i += 1
            out.append('""')
        elif c == "'" and i + 2 < n and (rs[i + 2] == "'" or (rs[i + 1] == "\\" and rs.find("'", i + 2) in (i + 3, i + 4))):
            j = rs.find("'", i + 2)
            i = j + 1
            out.append("' '")
        else:
            out.append(c)
            i += 1
    return "".join(out)


LOCAL_ROOTS = {"std", "core", "alloc", "crate", "self", "super", "Self", "clippy", "rustfmt"}
# crates that one feature brings in together (project.rs: needs_serde => serde + serde_json, needs_axum => axum + tokio)
BUNDLES = [{"serde", "serde_json"}, {"axum", "tokio"}]


def referenced_crates(files):
    """External crate roots referenced by the generated Rust: lower-case path heads not declared as local modules."""
    roots = set()
    mods = set()
    for path, rs in files.items():
        code = strip_strings_comments(rs)
        # inside a `use a::{b::c, d::e};` group the inner path heads are relative to `a`, not crates
        code = re.sub(r"\buse\s+([^;{]*)\{[^;]*;", lambda m: "use " + m.group(1) + "x;", code)
        mods |= set(re.findall(r"\bmod\s+([a-z_][a-z0-9_]*)\s*[;{]", code))
        stem = os.path.splitext(os.path.basename(path))[0]
        mods.add(stem)
        for m in re.finditer(r"(?<![A-Za-z0-9_:.])([a-z_][a-z0-9_]*)\s*::", code):
            # skip method turbofish (`.collect::<..>`, possibly after whitespace/newline) and tool attribute namespaces
            before = code[: m.start()].rstrip()
            if before.endswith("."):
                continue
            roots.add(m.group(1))
        # `use regex;` / `use regex as r;` style imports of a bare crate
        for m in re.finditer(r"\buse\s+([a-z_][a-z0-9_]*)\s*(?:;|as\b)", code):
            roots.add(m.group(1))
    return {r for r in roots if r not in LOCAL_ROOTS and r not in mods}


def generate(args):
    k, case, root = args
    name = case["name"]
    d = os.path.join(root, f"c{k}")
    os.makedirs(d, exist_ok=True)
    src = source(case)
    path = os.path.join(d, name + ".incn")
    open(path, "w", encoding="utf-8").write(src)
    if case.get("where") == "dep":
        open(os.path.join(d, "featlib.incn"), "w", encoding="utf-8").write(dep_source(case))
        src = src + "\n# --- featlib.incn\n" + dep_source(case)
    if case.get("where") == "dep2":
        for fname, entry, part in (("featlib.incn", "lib_entry", case["parts"][0]), ("featlib2.incn", "lib_entry2", case["parts"][1])):
            text = source({**part, "name": "prog", "where": "main"}).replace("def main() -> None:", f"pub def {entry}() -> None:")
            open(os.path.join(d, fname), "w", encoding="utf-8").write(text)
            src = src + f"\n# --- {fname}\n" + text
    env = {"PATH": FAKE + ":" + os.environ.get("PATH", ""), "HOME": os.environ.get("HOME", "/root"), "RUST_LOG": "off"}
    p = subprocess.run([common.INCAN, "--no-banner", "--color", "never", "build", name + ".incn", "out"], cwd=d, env=env, capture_output=True, text=True, timeout=120)
    files = {}
    out = os.path.join(d, "out")
    if os.path.isdir(out):
        for r, _, fs in os.walk(out):
            for f in fs:
                if f.endswith((".rs", ".toml")):
                    fp = os.path.join(r, f)
                    files[os.path.relpath(fp, out)] = open(fp, encoding="utf-8").read()
    return k, src, p.returncode, (p.stdout + p.stderr)[-1500:], files


def judge(case, src, rc, text, files):
    """Return list of (failure kind, detail)."""
    probs = []
    toml_txt = files.get("Cargo.toml")
    if case.get("expect_refused"):
        if rc == 0:
            probs.append(("unknown-crate-not-refused", f"incan build exit 0; Cargo.toml: {toml_txt[-300:] if toml_txt else None}"))
        if toml_txt and re.search(r'=\s*"\*"', toml_txt):
            probs.append(("wildcard-dependency-written", toml_txt))
        return probs
    if rc != 0:
        if "Type" in text or "error" in text.lower():
            return [("NOT-IN-DOMAIN", text)]
        return [("build-command-failed", text)]
    if toml_txt is None:
        return [("no-cargo-toml", text)]
    try:
        t = tomllib.loads(toml_txt)
    except tomllib.TOMLDecodeError as e:
        return [("cargo-toml-does-not-parse", f"{e}\n{toml_txt}")]
    name = case["name"]
    if t.get("package", {}).get("name") != name:
        probs.append(("package-name-differs", f"package.name={t.get('package', {}).get('name')!r}, file stem {name!r}"))
    bins = t.get("bin", [])
    if not bins or bins[0].get("name") != name:
        probs.append(("bin-name-differs", f"bin={bins!r}, file stem {name!r}"))
    deps = t.get("dependencies", {})
    for d, spec in deps.items():
        if isinstance(spec, str):
            if spec.strip() in ("*", ""):
                probs.append(("unpinned-dependency", f"{d} = {spec!r}"))
        elif isinstance(spec, dict):
            if not (spec.get("version") or spec.get("path")) or spec.get("version") == "*":
                probs.append(("unpinned-dependency", f"{d} = {spec!r}"))
    refs = referenced_crates({k: v for k, v in files.items() if k.endswith(".rs")})
    declared = set(deps)
    imported = {c for c, _ in case["imports"] if c != "std"}
    missing = (refs | imported) - declared
    mates = set()
    for b in BUNDLES:
        if b & refs:
            mates |= b
    extra = declared - refs - ALWAYS - imported - mates
    if missing:
        probs.append(("referenced-crate-not-declared:" + ",".join(sorted(missing)), f"generated Rust refers to {sorted(missing)} but Cargo.toml declares {sorted(declared)}"))
    if extra:
        probs.append(("declared-crate-not-referenced:" + ",".join(sorted(extra)), f"Cargo.toml declares {sorted(extra)} which the generated Rust never refers to"))
    return probs


def run(tier):
    common.build(need_cli=True)
    out = common.Outcome("C15", tier)
    root = os.path.join(common.BUILD, "c15")
    shutil.rmtree(root, ignore_errors=True)
    cs = cases(tier)
    with ThreadPool(common.NCPU) as pool:
        res = pool.map(generate, [(k, c, root) for k, c in enumerate(cs)])
    sig_ok = set()
    n_domain = 0
    for k, src, rc, text, files in res:
        case = cs[k]
        probs = judge(case, src, rc, text, files)
        sig = (case["triggers"], case["imports"], case["name"], case.get("where", "main"))
        if probs and probs[0][0] == "NOT-IN-DOMAIN":
            continue
        n_domain += 1
        if not probs:
            sig_ok.add(sig)
        for kind, detail in probs:
            key = f"{kind}|trig:{'+'.join(case['triggers']) or '-'}|imp:{'+'.join(c + '/' + f for c, f in case['imports']) or '-'}|name:{case['name'][:12]}" + ("|in-dependency-module" if case.get("where") == "dep" else "") + (f"|two-dependency-modules:{case['order']}" if case.get("where") == "dep2" else "")
            out.fail(key, {"case": {"triggers": list(case["triggers"]), "imports": [list(i) for i in case["imports"]], "name": case["name"], "where": case.get("where", "main"), "parts": case.get("parts"), "order": case.get("order")}, "source": src, "detail": detail, "cargo_toml": files.get("Cargo.toml")})
    # sufficiency: really build the subsets whose crates are available offline
    pipe.warm()
    real = [c for c in cs if not c["imports"] and c["name"] == "prog" and c.get("where") not in ("dep", "dep2") and len(c["triggers"]) <= (3 if tier == "thorough" else 1)]
    real += [c for c in cs if c["imports"] == (("serde_json", "import_crate"),)]
    rr = pipe.run_many([(i, {"prog.incn": source(c)}, {"run": False}) for i, c in enumerate(real)])
    n_real_ok = 0
    real_fail = {}
    for i, c in enumerate(real):
        r = rr[i]
        if r.ok:
            n_real_ok += 1
        elif r.stage == "rustc" and re.search(r"E0432|E0433|E0463|unresolved import|can't find crate|use of unresolved|undeclared crate", r.stderr):
            out.fail(f"real-build-missing-crate|trig:{'+'.join(c['triggers']) or '-'}", {"case": {"triggers": list(c["triggers"]), "imports": [list(i) for i in c["imports"]], "name": "prog"}, "source": source(c), "detail": r.stderr[-800:]})
        else:
            real_fail[f"{r.stage}:{(r.detail or '')[:60]}"] = real_fail.get(f"{r.stage}:{(r.detail or '')[:60]}", 0) + 1
    shutil.rmtree(root, ignore_errors=True)
    cov = {
        "evaluations": len(cs) + len(real),
        "distinct_nontrivial": len(sig_ok),
        "rule": "project generations: every subset of <= 2 (thorough <= 3) of 11 feature triggers (derive Serialize / Deserialize merged, stacked, on class; json_stringify; async; plain; web route; web import only), 8 cases with the trigger or rust:: import in a dependency module instead of the entry file, 32 with two dependency modules (4 x 4 trigger / import pairs, imported in either order), "
        "every known-good crate in 4 import forms, crate pairs, std, crates also implied by a feature, an unknown crate in every form (must be refused), 4 unknown crates incl. the feature-pinned `axum` x 2 forms x 6 feature sets (must be refused), 11 project names; oracle on "
        "the files written by the real `incan build` (no-op cargo): TOML parses, package/bin name = file stem, every dependency pinned, declared crates = crates referenced by the "
        "generated Rust (token scan ignoring strings/comments) + {incan_stdlib, incan_derive}; plus real cargo builds of the registry-available subsets",
        "samples": [{"triggers": list(c["triggers"]), "imports": [list(i) for i in c["imports"]], "name": c["name"]} for c in common.pick_samples(cs)],
        "exhaustive": True,
        "generated_projects": len(cs),
        "in_domain": n_domain,
        "real_builds": len(real),
        "real_builds_ok": n_real_ok,
        "real_build_failures_not_judged": real_fail,
    }
    return out.finish(
        cov,
        assumptions=[
            "external crate roots are recognised by a token scan of the generated Rust (lower-case path heads that are not local modules, std/core/alloc/crate/self/super)",
            "incan_stdlib and incan_derive are the always-present runtime crates",
            "crates that are not in the offline registry cannot be really built here; their projects are judged on the written files only",
        ],
    )


def replay(path):
    common.build(need_cli=True)
    rec = json.load(open(path, encoding="utf-8"))
    c = rec["case"]
    case = {"triggers": tuple(c["case"]["triggers"]), "imports": tuple(tuple(i) for i in c["case"]["imports"]), "name": c["case"]["name"], "where": c["case"].get("where", "main")}
    if c["case"].get("parts"):
        case["parts"] = [{"triggers": tuple(p_["triggers"]), "imports": tuple(tuple(i) for i in p_["imports"])} for p_ in c["case"]["parts"]]
        case["order"] = c["case"]["order"]
    if "unknown" in rec["key"] or "wildcard" in rec["key"]:
        case["expect_refused"] = True
    root = os.path.join(common.BUILD, "c15_replay")
    shutil.rmtree(root, ignore_errors=True)
    k, src, rc, text, files = generate((0, case, root))
    probs = judge(case, src, rc, text, files)
    print(src)
    print("incan build exit", rc)
    print(files.get("Cargo.toml"))
    print("problems:", probs)
    shutil.rmtree(root, ignore_errors=True)
    return 1 if probs and probs[0][0] != "NOT-IN-DOMAIN" else 0
