"""The repository's own Incan sources used as additional base programs (snapshot inputs, examples, fixtures)."""
import glob
import os

from . import common


def files():
    fs = sorted(
        glob.glob(common.REPO + "/tests/codegen_snapshots/*.incn")
        + glob.glob(common.REPO + "/examples/**/*.incn", recursive=True)
        + glob.glob(common.REPO + "/tests/fixtures/**/*.incn", recursive=True)
        + glob.glob(common.REPO + "/tests/test_example.incn")
    )
    return fs


def write_list(paths, name):
    os.makedirs(common.BUILD, exist_ok=True)
    p = os.path.join(common.BUILD, name)
    with open(p, "w") as f:
        f.write("\n".join(paths) + "\n")
    return p
