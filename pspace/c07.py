"""C07 – numeric result types follow the documented table in every phase.

Static half (in-process, real checker): for every arithmetic / comparison expression over int and float operands the type
the checker records for the expression must be the one in numeric_semantics.md, and a float-typed expression must be
rejected wherever an int is required (annotated let, return, compound assignment, const) while the int/int and float/float
twins are accepted. Dynamic half (real CLI + rustc): every accepted annotated binding `x: T = e` must compile, i.e. rustc
assigns the emitted expression the Rust type of T (i64 / f64).
"""
import itertools
import json
import re

from . import common, pipe, serve

ARITH = ["+", "-", "*", "/", "//", "%", "**"]
CMP = ["==", "!=", "<", "<=", ">", ">="]
# operand kinds: text, type
OPERANDS = {
    "int_lit": ("2", "int"),
    "float_lit": ("2.5", "float"),
    "int_var": ("i", "int"),
    "float_var": ("f", "float"),
    "int_sub": ("(i + 1)", "int"),
    "float_sub": ("(f + 1.0)", "float"),
}
# exponent kinds for **: text, type, is non-negative int literal
EXPONENTS = {
    "nonneg_lit": ("3", "int", True),
    "zero_lit": ("0", "int", True),
    "neg_lit": ("-1", "int", False),
    "int_var": ("j", "int", False),
    "int_sub": ("(j + 1)", "int", False),
    "float_lit": ("2.0", "float", False),
    "float_var": ("g", "float", False),
}
HEAD = "def fi(a: int) -> int:\n    return a\n\n\ndef ff(a: float) -> float:\n    return a\n\n\n"
SIG = "i: int, j: int, f: float, g: float"
# module-level consts declared before (HEAD) and after (TAIL) the function under test, with and without annotation
# KIW / KFW are referred to by consts declared BEFORE them (the evaluator meets them first as a dependency)
HEAD = "const KUF = KFW * 2.0\nconst KUI = KIW + 1\nconst KIE = 7\nconst KFE = 3 * 0.5\nconst KIEA: int = 7\nconst KFEA: float = 1.5\nconst KFW = 3.5\nconst KIW = 7\n\n\n" + HEAD
TAIL = "\n\nconst KIL = 7\nconst KFL = 3 * 0.5\nconst KILA: int = 7\nconst KFLA: float = 1.5\n"
CONST_OPERANDS = {
    "int_const_early": ("KIE", "int"), "float_const_early": ("KFE", "float"), "int_const_early_annotated": ("KIEA", "int"), "float_const_early_annotated": ("KFEA", "float"),
    "int_const_referenced_by_earlier_const": ("KIW", "int"), "float_const_referenced_by_earlier_const": ("KFW", "float"),
    "int_const_late": ("KIL", "int"), "float_const_late": ("KFL", "float"), "int_const_late_annotated": ("KILA", "int"), "float_const_late_annotated": ("KFLA", "float"),
}


def table(op, lt, rt, exp_nonneg_lit=False):
    """numeric_semantics.md"""
    if op in CMP:
        return "bool"
    if op == "/":
        return "float"
    if op == "**":
        return "int" if (lt == "int" and rt == "int" and exp_nonneg_lit) else "float"
    return "float" if "float" in (lt, rt) else "int"


def expressions(tier):
    """Yield (sig, text, type)."""
    for op in ARITH + CMP:
        for (ln, (l, lt)), (rn, (r, rt)) in itertools.product(OPERANDS.items(), OPERANDS.items()):
            if op == "**":
                continue
            yield (f"op:{op}", f"l:{ln}", f"r:{rn}"), f"{l} {op} {r}", table(op, lt, rt)
    for (ln, (l, lt)), (en, (e, et, nn)) in itertools.product(OPERANDS.items(), EXPONENTS.items()):
        yield ("op:**", f"l:{ln}", f"exp:{en}"), f"{l} ** {e}", table("**", lt, et, nn)
    # module-level consts as operands (declared before / after the function, annotated / inferred), on either side
    partners = [(k, OPERANDS[k]) for k in ("int_lit", "float_lit", "int_var", "float_var")]
    for op in ARITH:
        if op == "**":
            continue
        for (cn, (c, ct)), (pn, (p_, pt)) in itertools.product(CONST_OPERANDS.items(), partners):
            yield (f"op:{op}", f"l:{cn}", f"r:{pn}"), f"{c} {op} {p_}", table(op, ct, pt)
            yield (f"op:{op}", f"l:{pn}", f"r:{cn}"), f"{p_} {op} {c}", table(op, pt, ct)
    # `**` with a const on either side: a const exponent is not a literal, so the result is float
    for (cn, (c, ct)), (pn, (p_, pt)) in itertools.product(CONST_OPERANDS.items(), partners):
        yield ("op:**", f"l:{pn}", f"exp:{cn}"), f"{p_} ** {c}", table("**", pt, ct, False)
        yield ("op:**", f"l:{cn}", f"exp:{pn}"), f"{c} ** {p_}", table("**", ct, pt, pn == "int_lit")
    # depth 2: (a op1 b) op2 c and a op1 (b op2 c) over variables
    vs = [("i", "int"), ("f", "float")]
    ops2 = ARITH if tier == "thorough" else ["+", "/", "//", "%", "*"]
    for o1, o2 in itertools.product(ops2, ops2):
        if "**" in (o1, o2):
            continue
        for (a, at), (b, bt), (c, ct) in itertools.product(vs, vs, vs):
            t1 = table(o1, at, bt)
            yield ("depth2:left", f"op:{o1}", f"op2:{o2}", at, bt, ct), f"({a} {o1} {b}) {o2} {c}", table(o2, t1, ct)
            t2 = table(o2, bt, ct)
            yield ("depth2:right", f"op:{o1}", f"op2:{o2}", at, bt, ct), f"{a} {o1} ({b} {o2} {c})", table(o1, at, t2)
    if tier == "thorough":
        for o1, o2, o3 in itertools.product(["+", "/", "//"], ["*", "%", "/"], ["-", "//", "+"]):
            for (a, at), (b, bt) in itertools.product(vs, vs):
                t1 = table(o1, at, bt)
                t2 = table(o3, bt, at)
                yield ("depth3", o1, o2, o3, at, bt), f"({a} {o1} {b}) {o2} ({b} {o3} {a})", table(o2, t1, t2)


def span_of(src, text):
    i = src.index(text)
    return len(src[:i].encode()), len(src[: i + len(text)].encode())


# binding positions: template, what is required there
POSITIONS = {
    "let_int": ("def t({SIG}) -> None:\n    x: int = {E}\n", "int"),
    "let_float": ("def t({SIG}) -> None:\n    x: float = {E}\n", "float"),
    "return_int": ("def t({SIG}) -> int:\n    return {E}\n", "int"),
    "return_float": ("def t({SIG}) -> float:\n    return {E}\n", "float"),
    "const_int": None,  # literals only, built separately
    "assign_mut_int": ("def t({SIG}) -> None:\n    mut m: int = 1\n    m = {E}\n", "int"),
    "assign_mut_float": ("def t({SIG}) -> None:\n    mut m: float = 1.0\n    m = {E}\n", "float"),
    "nested_let_int": ("def t({SIG}) -> None:\n    if i > 0:\n        for k in range(2):\n            x: int = {E}\n", "int"),
}
COMPOUND_BLOCKS = {
    "body": "{S}",
    "if": "if i > 0:\n    {S}",
    "else": "if i > 0:\n    pass\nelse:\n    {S}",
    "elif": "if i > 0:\n    pass\nelif j > 0:\n    {S}",
    "while": "while i > 0:\n    {S}\n    break",
    "for": "for it in range(2):\n    {S}",
    "for_if": "for it in range(2):\n    if i > 0:\n        {S}",
    "match_arm": "match i:\n    case 0:\n        {S}\n    case _:\n        pass",
}
COMPOUND = {"+=": "+", "-=": "-", "*=": "*", "/=": "/", "//=": "//", "%=": "%"}


def run(tier):
    common.build(need_cli=True)
    out = common.Outcome("C07", tier)
    exprs = list(expressions(tier))
    # ------------------------------------------------------------------ static: recorded expression types
    reqs, meta = [], []
    for k, (sig, e, ty) in enumerate(exprs):
        src = HEAD + f"def t({SIG}) -> None:\n    x = {e}\n" + TAIL
        reqs.append({"id": k, "op": "types", "src": src})
        meta.append((sig, e, ty, src))
    res = serve.run_requests(reqs)
    n_static = 0
    sig_ok = set()
    fails = []
    for k, (sig, e, ty, src) in enumerate(meta):
        r = res[k]
        n_static += 1
        if r.get("crashed") or r.get("panic"):
            fails.append((sig, "checker-crashed", {"expr": e, "expected": ty, "program": src}))
            continue
        if not r.get("ok"):
            fails.append((sig, "well-typed-expression-rejected", {"expr": e, "expected": ty, "program": src, "errors": r.get("errs")}))
            continue
        s, t = span_of(src, f"x = {e}")
        s += len("x = ")
        got = [tt for (a, b, tt) in r["exprs"] if a == s and b == t]
        if not got:
            # parenthesised tops record the inner span; accept the widest recorded span inside [s, t)
            inner = [(b - a, tt) for (a, b, tt) in r["exprs"] if a >= s and b <= t]
            got = [max(inner)[1]] if inner else []
        if not got or got[0] != ty:
            fails.append((sig, f"static-type:{got[0] if got else '?'}-expected-{ty}", {"expr": e, "expected": ty, "recorded": got, "program": src}))
        else:
            sig_ok.add(sig)
    # ------------------------------------------------------------------ static: binding positions
    reqs, meta = [], []
    k = 0
    for sig, e, ty in exprs:
        if ty == "bool":
            continue
        for pn, spec in POSITIONS.items():
            if spec is None:
                continue
            tpl, need = spec
            src = HEAD + tpl.replace("{SIG}", SIG).replace("{E}", e) + TAIL
            reqs.append({"id": k, "op": "types", "src": src})
            meta.append((sig, e, ty, pn, need, src))
            k += 1
    # compound assignments: m <op>= rhs typed as m = m <op> rhs
    for cop, bop in COMPOUND.items():
        for (rn, (rtxt, rt)) in OPERANDS.items():
            for mt, init in (("int", "1"), ("float", "1.0")):
                # the statement in the function body and in every kind of nested block (the variable lives in the outer scope)
                for bk, blk in COMPOUND_BLOCKS.items():
                    stmt = blk.replace("{S}", f"m {cop} {rtxt}")
                    src = HEAD + f"def t({SIG}) -> None:\n    mut m: {mt} = {init}\n" + "".join("    " + l + "\n" for l in stmt.split("\n")) + TAIL
                    ty = table(bop, mt, rt)
                    reqs.append({"id": k, "op": "types", "src": src})
                    ctx = () if bk == "body" else (f"block:{bk}",)
                    meta.append(((f"compound:{cop}", f"target:{mt}", f"r:{rn}") + ctx, f"m {cop} {rtxt}", ty, f"compound_{mt}", mt, src))
                    k += 1
    # const initialisers: literal and const-reference operands, the const alone / referred to by an earlier const
    c_ops = (("7", "int", True), ("7.5", "float", True), ("CI", "int", False), ("CF", "float", False))
    c_rhs = (("2", "int", True), ("2.0", "float", True), ("CI", "int", False), ("CF", "float", False))
    for op in ARITH:
        for (l, lt, _), (r_, rt, rlit) in itertools.product(c_ops, c_rhs):
            ty = table(op, lt, rt, rt == "int" and rlit)
            for ann in ("int", "float"):
                for layout, before in (("alone", ""), ("referenced_by_earlier_const", "const EARLY: float = K * 2.0\n")):
                    src = f"const CI = 3\nconst CF = 1.5\n{before}const K: {ann} = {l} {op} {r_}\n\n\ndef main() -> None:\n    pass\n"
                    reqs.append({"id": k, "op": "types", "src": src})
                    lk = "lit" if l[0].isdigit() else "const"
                    rk = "lit" if rlit else "const"
                    extra = () if layout == "alone" else (layout,)
                    meta.append(((f"const:{op}", lt, rt, f"l:{lk}", f"r:{rk}") + extra, f"{l} {op} {r_}", ty, f"const_{ann}", ann, src))
                    k += 1
    res = serve.run_requests(reqs)
    accepted_bindings = []
    for k, (sig, e, ty, pn, need, src) in enumerate(meta):
        r = res[k]
        n_static += 1
        if r.get("crashed") or r.get("panic"):
            fails.append((sig + (f"pos:{pn}",), "checker-crashed", {"expr": e, "program": src}))
            continue
        ok = bool(r.get("ok"))
        if ty == "float" and need == "int":
            if ok:
                fails.append((sig + (f"pos:{pn}",), f"float-accepted-where-int-required@{pn}", {"expr": e, "type": ty, "position": pn, "program": src}))
            else:
                sig_ok.add(sig + (pn,))
        elif ty == need:
            if not ok:
                fails.append((sig + (f"pos:{pn}",), f"matching-kind-rejected@{pn}", {"expr": e, "type": ty, "position": pn, "program": src, "errors": r.get("errs")}))
            else:
                sig_ok.add(sig + (pn,))
                if pn in ("let_int", "let_float", "return_int", "return_float") and not sig[0].startswith("const"):
                    accepted_bindings.append((sig, e, ty, pn, src))
        else:
            # int where float is required: the reference does not say whether this is accepted; if it is, rustc must agree
            if ok and pn in ("let_float", "return_float"):
                accepted_bindings.append((sig, e, ty, pn, src))
    # group failures: per (operator, failure kind)
    by_key = {}
    for sig, kind, case in fails:
        key = f"{sig[0]}|{kind}"
        by_key.setdefault(key, []).append({"sig": list(sig), **case})
    # ------------------------------------------------------------------ dynamic: rustc agrees with every accepted annotated binding
    pipe.warm()
    funcs = []
    for n, (sig, e, ty, pn, src) in enumerate(accepted_bindings):
        body = (src[len(HEAD) : -len(TAIL)] if src.endswith(TAIL) else src[len(HEAD) :]).replace("def t(", f"def t{n}(")
        funcs.append((sig + (pn,), body))
    if tier != "thorough":
        funcs = funcs[::6]
    PACKN = 40
    packs = [funcs[i : i + PACKN] for i in range(0, len(funcs), PACKN)]

    def prog(fs):
        return HEAD + "\n\n".join(b for _, b in fs) + "\n\ndef main() -> None:\n    pass\n" + TAIL

    n_built = 0
    not_judged = {}
    while packs:
        rr = pipe.run_many([(i, {"prog.incn": prog(p)}, {"run": False}) for i, p in enumerate(packs)])
        nxt = []
        for i, p in enumerate(packs):
            r = rr[i]
            if r.ok:
                n_built += len(p)
                for s, _ in p:
                    sig_ok.add(s + ("rustc",))
            elif len(p) == 1:
                s, b = p[0]
                type_err = r.stage == "rustc" and re.search(r"E0308|E0277|E0369|E0368", r.detail or "")
                if type_err:
                    key = f"{s[0]}|rustc-disagrees-on-numeric-type@{s[-1]}"
                    by_key.setdefault(key, []).append({"sig": list(s), "program": prog(p), "rustc": r.stderr[-1200:]})
                else:
                    not_judged[f"{r.stage}:{(r.detail or '')[:50]}"] = not_judged.get(f"{r.stage}:{(r.detail or '')[:50]}", 0) + 1
            else:
                h = len(p) // 2
                nxt += [p[:h], p[h:]]
        packs = nxt
    if funcs and n_built * 2 < len(funcs):
        raise common.MachineryError(f"dynamic half is vacuous: only {n_built} of {len(funcs)} accepted bindings compiled ({not_judged})")
    for key, cs in by_key.items():
        for c in cs[:2]:
            out.fail(key, c)
        if key in out.known_seen:
            out.known_seen[key][0] = len(cs)
    cov = {
        "evaluations": n_static + len(funcs),
        "distinct_nontrivial": len(sig_ok),
        "rule": "every operator (7 arithmetic, 6 comparison) x left operand kind x right operand kind (int/float literal, variable, parenthesised sub-expression), every `**` "
        "exponent kind (non-negative / zero / negative literal, int variable, int sub-expression, float literal / variable), depth-2 (thorough: depth-3) nestings over int/float "
        "variables; module-level consts (int / float, annotated / inferred, declared before / after the function, or referred to by an earlier const) as left or right operand of every operator (incl. `**` base and exponent) with 4 partner kinds; each in 7 binding positions + 6 compound assignments x 6 right-hand kinds x int/float target x 8 block contexts (function body, if, else, elif, while, for, for+if, match arm) + const initialisers (literal / const-reference operands x 7 operators x int/float annotation x the const alone / referred to by an earlier const); static oracle = the table of "
        "numeric_semantics.md against the checker's recorded expression type and its accept/reject verdict; dynamic oracle = every accepted annotated binding compiles with rustc "
        "(quick: every sixth)",
        "samples": [{"sig": list(s), "expr": e, "table_type": t} for s, e, t in common.pick_samples(exprs)],
        "exhaustive": True,
        "expressions": len(exprs),
        "static_cases": n_static,
        "bindings_compiled": len(funcs),
        "bindings_compiled_ok": n_built,
        "build_failures_not_judged_here": not_judged,
        "failing_by_class": {k: len(v) for k, v in by_key.items()},
    }
    pipe.prune_targets()
    return out.finish(
        cov,
        assumptions=[
            "reference = the result-type rules of numeric_semantics.md (a parenthesised literal exponent is not asserted either way)",
            "whether an int expression may initialise a float binding is not fixed by the reference: not asserted statically, but if accepted rustc must accept the emitted code",
            "build failures that are not numeric type errors (E0308/E0277/E0369/E0368) belong to C02 and are only counted here",
        ],
    )


def replay(path):
    common.build(need_cli=True)
    rec = json.load(open(path, encoding="utf-8"))
    c = rec["case"]
    src = c["program"]
    import subprocess

    p = subprocess.run([common.IVH, "serve"], input=json.dumps({"id": 0, "op": "types", "src": src}) + "\n", capture_output=True, text=True, encoding="utf-8")
    r = json.loads(p.stdout)
    print(src)
    print("checker:", "accepted" if r.get("ok") else r.get("errs"))
    print("expression types:", r.get("exprs"))
    if "rustc" in c:
        rr = pipe.run_program(0, {"prog.incn": src}, run=False)
        print("incan build:", "ok" if rr.ok else f"{rr.stage}: {rr.detail}")
        return 0 if rr.ok else 1
    key = rec["key"]
    if "float-accepted" in key:
        return 1 if r.get("ok") else 0
    if "rejected" in key:
        return 0 if r.get("ok") else 1
    return 1
