"""Parallel driver for `ivh serve`: distribute JSON requests over N server processes, preserving ids."""
import json
import subprocess
import threading
import time

from . import common

TIMEOUT = 60


def _worker(reqs, out, idx, timeout=None):
    timeout = timeout or TIMEOUT
    p = subprocess.Popen([common.IVH, "serve"], stdin=subprocess.PIPE, stdout=subprocess.PIPE, stderr=subprocess.PIPE, text=True, encoding="utf-8")
    res = []

    def feed():
        try:
            for r in reqs:
                p.stdin.write(json.dumps(r, ensure_ascii=False) + "\n")
            p.stdin.close()
        except BrokenPipeError:
            pass

    t = threading.Thread(target=feed)
    t.start()
    # watchdog: a request that does not come back within TIMEOUT seconds kills the server (reported as crashed/hung)
    last = [time.time()]
    done = [False]

    def watch():
        while not done[0]:
            time.sleep(1.0)
            if time.time() - last[0] > timeout:
                try:
                    p.kill()
                except OSError:
                    pass
                return

    wt = threading.Thread(target=watch, daemon=True)
    wt.start()
    for line in p.stdout:
        last[0] = time.time()
        res.append(json.loads(line))
    done[0] = True
    t.join()
    rc = p.wait()
    err = p.stderr.read()
    out[idx] = (res, rc, err)


def run_requests(reqs, n=None):
    """reqs: list of dicts with unique 'id'. Returns {id: response}. A crashed server process is a machinery error
    unless `crash_ok`; the request in flight is then reported with {"crashed": True}."""
    n = n or common.NCPU
    n = max(1, min(n, len(reqs)))
    chunks = [reqs[i::n] for i in range(n)]
    out = [None] * n
    ts = [threading.Thread(target=_worker, args=(chunks[i], out, i)) for i in range(n)]
    for t in ts:
        t.start()
    for t in ts:
        t.join()
    by_id = {}
    for i, (res, rc, err) in enumerate(out):
        for r in res:
            by_id[r["id"]] = r
        if rc != 0 or len(res) != len(chunks[i]):
            # the first unanswered request killed the server (abort / stack overflow): mark it, re-run the rest
            answered = {r["id"] for r in res}
            rest = [r for r in chunks[i] if r["id"] not in answered]
            if rest:
                # confirm alone, in a fresh process and with a generous time limit, before calling it a crash / hang
                # (a loaded machine must not turn a slow answer into an alarm)
                solo = [None]
                _worker([rest[0]], solo, 0, timeout=4 * TIMEOUT)
                sres, src_, serr = solo[0]
                if src_ == 0 and len(sres) == 1:
                    by_id[rest[0]["id"]] = sres[0]
                else:
                    by_id[rest[0]["id"]] = {"id": rest[0]["id"], "crashed": True, "stderr": (serr or err)[-400:]}
                if len(rest) > 1:
                    by_id.update(run_requests(rest[1:], 1))
    return by_id
