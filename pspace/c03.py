"""C03 – ill-typed programs are rejected with a located diagnostic.

rule x context enumeration: every rule-breaking construct from the property's list is placed at every statement /
function / expression context of a well-typed base; the byte range of the offending construct is recorded. The twin
(benign construct in the same place) must be accepted. Oracle: the real checker returns errors and at least one error
span intersects the offending construct.
"""
import json
import subprocess

from . import common, serve
from .gen import ind, place

L, R = "\u27e6", "\u27e7"  # ⟦ ⟧ mark the offending construct in rule snippets

PRELUDE = '''enum Color:
    Red
    Green
    Blue


enum Shade:
    Dark
    Light


model Point:
    x: int
    y: int


class Counter:
    n: int

    def bump(mut self) -> None:
        self.n += 1


trait Named:
    def name(self) -> str: ...


@requires(label: str)
trait Labeled:
    def show(self) -> str:
        return self.label


def takes_int(a: int) -> int:
    return a


def takes_two(a: int, b: str) -> int:
    return a


def get_res() -> Result[int, str]:
    return Ok(1)


def get_res_int_err() -> Result[int, int]:
    return Ok(1)


'''

LOCALS = '''let k = 1
ilist = [1, 2, 3]
mut mlist = [1, 2, 3]
mut m = 1
p = Point(x=1, y=2)
mut q = Point(x=1, y=2)
mut cnt = Counter(n=0)
frozen = Counter(n=0)
'''
PARAMS = "flag: bool, n: int, xs: List[int], opt: Option[int], res: Result[int, str], col: Color, name: str"

# function-level contexts: {B} is the body block (locals + context + final return)
FN_CTX = {
    "fn": ("def ctx({P}) -> {RT}:\n{B}\n", ""),
    "model_method": ("model Holder:\n    v: int\n\n    def run(self, {P}) -> {RT}:\n{B}\n", "    "),
    "class_mut_method": ("class Worker:\n    v: int\n\n    def run(mut self, {P}) -> {RT}:\n{B}\n", "    "),
    "trait_default": ("trait Runner:\n    def run(self, {P}) -> {RT}:\n{B}\n", "    "),
    "newtype_method": ("type Wrapped = newtype int:\n    def run(self, {P}) -> {RT}:\n{B}\n", "    "),
    "second_fn": ("def other() -> int:\n    return 1\n\n\ndef ctx({P}) -> {RT}:\n{B}\n", ""),
    # an earlier function binds the same names with the *opposite* mutability / other types (name-keyed state must not leak)
    "after_fn_same_names_other_mutability": (
        "def earlier(flag: bool) -> int:\n    mut k = 1\n    k += 1\n    mut j = 1\n    j = 2\n    mut n = 1\n    n = 5\n    mut ilist = [1]\n    ilist.append(2)\n    ilist[0] = 5\n"
        "    mut p = Point(x=1, y=2)\n    p.x = 5\n    p.x += 1\n    mut frozen = Counter(n=0)\n    frozen.bump()\n    let m = \"s\"\n    let z = \"s\"\n    return k\n\n\ndef ctx({P}) -> {RT}:\n{B}\n",
        "",
    ),
}

STMT_CTX = {
    "body": "{S}",
    "if_then": "if flag:\n    {S}",
    "if_else": "if flag:\n    pass\nelse:\n    {S}",
    "elif": "if flag:\n    pass\nelif n > 3:\n    {S}",
    "elif2": "if flag:\n    pass\nelif n > 3:\n    pass\nelif n > 5:\n    {S}",
    "elif_else": "if flag:\n    pass\nelif n > 3:\n    pass\nelse:\n    {S}",
    "while": "while flag:\n    {S}",
    "for": "for it in xs:\n    {S}",
    "for_if": "for it in xs:\n    if flag:\n        {S}",
    "if_if": "if flag:\n    if n > 1:\n        {S}",
    "while_for": "while flag:\n    for it in xs:\n        {S}",
    "case_block": "match n:\n    case 0:\n        {S}\n    case _:\n        pass",
    "case_last": "match n:\n    case 0:\n        pass\n    case _:\n        {S}",
    "case_guarded": "match n:\n    case v if v > 2:\n        {S}\n    case _:\n        pass",
    "arrow_block": "match n:\n    0 =>\n        {S}\n    _ =>\n        pass",
    "match_option": "match opt:\n    case Some(v):\n        {S}\n    case None:\n        pass",
    "after_if": "if flag:\n    pass\n{S}",
    # state carried from an earlier statement of the same body (each of these opens and closes some checker state)
    "after_closure": "let fq = (aq) => aq + 1\nlet yq = fq(1)\n{S}",
    "after_closure_as_argument": "let yq = xs.map((aq) => aq + 1)\n{S}",
    "after_comprehension": "let cq = [vq * 2 for vq in xs if vq > 0]\n{S}",
    "after_match": "match opt:\n    case Some(vq):\n        pass\n    case None:\n        pass\n{S}",
    "after_for": "for iq in xs:\n    pass\n{S}",
    "after_while": "while False:\n    pass\n{S}",
    "after_fstring": 'let sq = f"{n} and {name}"\n{S}',
    "after_if_expr": "let eq = 1 if flag else 2\n{S}",
    "after_nested_let": "if flag:\n    let inner_q = 1\n{S}",
    "after_call_and_method": "let tq = takes_int(n)\nmlist.append(tq)\n{S}",
    # a closed inner block bound the same names mutably
    "after_block_same_names_mut": "if flag:\n    mut k = 5\n    k += 1\n    mut j = 1\n    j = 2\n    mut n = 1\n    n = 3\n    mut ilist = [1]\n    ilist.append(2)\n    mut p = Point(x=0, y=0)\n    p.x = 1\n{S}",
}

# expression-position contexts for expression-level rule breakers ({E} is the offending expression incl. markers)
EXPR_CTX = {
    "let": "let z = {E}",
    "print": "print({E})",
    "if_cond": "if {E} == 1:\n    pass",
    "elif_cond": "if flag:\n    pass\nelif {E} == 1:\n    pass",
    "while_cond": "while {E} == 1:\n    break",
    "return": "return {E}",
    "call_arg": "takes_int({E})",
    "binop": "let z = 1 + {E}",
    "list_elem": "let z = [{E}, 2]",
    "comp_elem": "let z = [{E} for it in xs]",
    "comp_filter": "let z = [it for it in xs if {E} == 1]",
    "closure_body": "let fz = (a) => {E}",
    "fstring": 'print(f"v={{E}}")',
    "guard": "match n:\n    case v if {E} == 1:\n        pass\n    case _:\n        pass",
    "arrow_arm": "match n:\n    0 => print({E})\n    _ => print(0)",
    "index": "let z = xs[{E}]",
    "ctor_field": "let z = Point(x={E}, y=2)",
    "method_arg": "xs.append({E})",
    "cadd_rhs": "m += {E}",
    "reassign_rhs": "m = {E}",
}

# ---- rules: name -> dict(bad=stmt block with markers, good=stmt block, fn="int"|"res") ------------------------------
STMT_RULES = {
    "reassign_immutable": dict(bad=f"{L}k = 2{R}", good="m = 2"),
    "compound_assign_immutable": dict(bad=f"{L}k += 1{R}", good="m += 1"),
    "reassign_local_let": dict(bad=f"let j = 1\n{L}j = 2{R}", good="mut j = 1\nj = 2"),
    "reassign_param": dict(bad=f"{L}n = 5{R}", good="m = 5"),
    "field_assign_immutable": dict(bad=f"{L}p.x = 5{R}", good="q.x = 5"),
    "index_assign_immutable": dict(bad=f"{L}ilist[0] = 5{R}", good="mlist[0] = 5"),
    "append_on_immutable": dict(bad=f"{L}ilist.append(4){R}", good="mlist.append(4)"),
    "mut_method_on_immutable": dict(bad=f"{L}frozen.bump(){R}", good="cnt.bump()"),
    "compound_field_assign_immutable": dict(bad=f"{L}p.x += 1{R}", good="q.x += 1"),
    "wrong_type_annotated_let": dict(bad=f'let z: int = {L}"s"{R}', good="let z: int = 2"),
    "wrong_type_annotated_let_div": dict(bad=f"let z: int = {L}n / 2{R}", good="let z: float = n / 2"),
    "wrong_type_reassign": dict(bad=f'm = {L}"s"{R}', good="m = 2"),
    "wrong_type_return": dict(bad=f'{L}return "s"{R}', good="return 2"),
    "wrong_type_field_assign": dict(bad=f'q.x = {L}"s"{R}', good="q.x = 2"),
    "wrong_type_argument": dict(bad=f'takes_int({L}"s"{R})', good="takes_int(2)"),
    "wrong_type_argument2": dict(bad=f"takes_two(1, {L}2{R})", good='takes_two(1, "b")'),
    "wrong_type_ctor_field": dict(bad=f'let z = Point(x={L}"s"{R}, y=2)', good="let z = Point(x=1, y=2)"),
    "try_on_non_result": dict(bad=f"let z = {L}n?{R}", good="let z = get_res()?", fn="res"),
    "try_incompatible_error": dict(bad=f"let z = {L}get_res_int_err()?{R}", good="let z = get_res()?", fn="res"),
    "match_enum_missing_variant": dict(
        bad=f"{L}match col:\n    case Color.Red:\n        pass\n    case Color.Green:\n        pass{R}",
        good="match col:\n    case Color.Red:\n        pass\n    case Color.Green:\n        pass\n    case Color.Blue:\n        pass",
    ),
    "match_enum_missing_variant_foreign_arm": dict(
        bad=f"{L}match col:\n    case Color.Red:\n        pass\n    case Color.Green:\n        pass\n    case Shade.Dark:\n        pass{R}",
        good="match col:\n    case Color.Red:\n        pass\n    case Color.Green:\n        pass\n    case Color.Blue:\n        pass",
    ),
    "match_enum_missing_variant_dup_arm": dict(
        bad=f"{L}match col:\n    case Color.Red:\n        pass\n    case Color.Green:\n        pass\n    case Color.Green:\n        pass{R}",
        good="match col:\n    case Color.Red:\n        pass\n    case Color.Green:\n        pass\n    case Color.Blue:\n        pass",
    ),
    "match_enum_variant_only_guarded": dict(
        bad=f"{L}match col:\n    case Color.Red:\n        pass\n    case Color.Green:\n        pass\n    case Color.Blue if flag:\n        pass{R}",
        good="match col:\n    case Color.Red:\n        pass\n    case Color.Green:\n        pass\n    case Color.Blue if flag:\n        pass\n    case Color.Blue:\n        pass",
    ),
    "match_option_missing_none": dict(
        bad=f"{L}match opt:\n    case Some(v):\n        pass{R}", good="match opt:\n    case Some(v):\n        pass\n    case None:\n        pass"
    ),
    "match_option_missing_some": dict(
        bad=f"{L}match opt:\n    case None:\n        pass{R}", good="match opt:\n    case Some(v):\n        pass\n    case None:\n        pass"
    ),
    "match_option_foreign_ok": dict(
        bad=f"{L}match opt:\n    case Some(v):\n        pass\n    case Ok(w):\n        pass{R}",
        good="match opt:\n    case Some(v):\n        pass\n    case None:\n        pass",
    ),
    "match_result_missing_err": dict(
        bad=f"{L}match res:\n    case Ok(v):\n        pass{R}", good="match res:\n    case Ok(v):\n        pass\n    case Err(e):\n        pass"
    ),
    "match_result_missing_ok": dict(
        bad=f"{L}match res:\n    case Err(e):\n        pass{R}", good="match res:\n    case Ok(v):\n        pass\n    case Err(e):\n        pass"
    ),
    "match_arrow_missing_variant": dict(
        bad=f"{L}match col:\n    Color.Red => print(1)\n    Color.Green => print(2){R}",
        good="match col:\n    Color.Red => print(1)\n    Color.Green => print(2)\n    Color.Blue => print(3)",
    ),
    # block scope (scopes_and_name_resolution.md): a name bound inside a block / arm / comprehension / closure is unknown outside it
    "scope_if_body_leak": dict(bad=f"if flag:\n    inner1 = 1\nlet z1 = {L}inner1{R}", good="if flag:\n    inner1 = 1\nlet z1 = n"),
    "scope_else_body_leak": dict(bad=f"if flag:\n    pass\nelse:\n    inner2 = 1\nlet z2 = {L}inner2{R}", good="if flag:\n    pass\nelse:\n    inner2 = 1\nlet z2 = n"),
    "scope_elif_body_leak": dict(bad=f"if flag:\n    pass\nelif n > 3:\n    inner3 = 1\nlet z3 = {L}inner3{R}", good="if flag:\n    pass\nelif n > 3:\n    inner3 = 1\nlet z3 = n"),
    "scope_while_body_leak": dict(bad=f"while flag:\n    inner4 = 1\n    break\nlet z4 = {L}inner4{R}", good="while flag:\n    inner4 = 1\n    break\nlet z4 = n"),
    "scope_for_body_leak": dict(bad=f"for it5 in xs:\n    inner5 = 1\nlet z5 = {L}inner5{R}", good="for it5 in xs:\n    inner5 = 1\nlet z5 = n"),
    "scope_for_var_leak": dict(bad=f"for it6 in xs:\n    pass\nlet z6 = {L}it6{R}", good="for it6 in xs:\n    pass\nlet z6 = n"),
    "scope_comprehension_var_leak": dict(bad=f"let c7 = [it7 for it7 in xs]\nlet z7 = {L}it7{R}", good="let c7 = [it7 for it7 in xs]\nlet z7 = n"),
    "scope_closure_param_leak": dict(bad=f"let f8 = (a8) => a8 + 1\nlet y8 = f8(1)\nlet z8 = {L}a8{R}", good="let f8 = (a8) => a8 + 1\nlet y8 = f8(1)\nlet z8 = n"),
    "scope_match_binding_leak_after": dict(
        bad=f"match opt:\n    case Some(b9):\n        pass\n    case None:\n        pass\nlet z9 = {L}b9{R}",
        good="match opt:\n    case Some(b9):\n        pass\n    case None:\n        pass\nlet z9 = n",
    ),
    "scope_match_binding_leak_next_arm": dict(
        bad=f"match res:\n    case Ok(b10):\n        pass\n    case Err(e10):\n        let z10 = {L}b10{R}",
        good="match res:\n    case Ok(b10):\n        pass\n    case Err(e10):\n        let z10 = n",
    ),
    "scope_match_arm_body_leak": dict(
        bad=f"match n:\n    case 0:\n        inner11 = 1\n    case _:\n        pass\nlet z11 = {L}inner11{R}",
        good="match n:\n    case 0:\n        inner11 = 1\n    case _:\n        pass\nlet z11 = n",
    ),
    "scope_match_catchall_binding_leak": dict(
        bad=f"match n:\n    case 0:\n        pass\n    case other12:\n        pass\nlet z12 = {L}other12{R}",
        good="match n:\n    case 0:\n        pass\n    case other12:\n        pass\nlet z12 = n",
    ),
    "scope_arrow_binding_leak": dict(
        bad=f"match opt:\n    Some(b13) => print(b13)\n    None => print(0)\nlet z13 = {L}b13{R}",
        good="match opt:\n    Some(b13) => print(b13)\n    None => print(0)\nlet z13 = n",
    ),
    "scope_nested_if_leak_to_outer_block": dict(
        bad=f"if flag:\n    if n > 1:\n        inner14 = 1\n    let z14 = {L}inner14{R}", good="if flag:\n    if n > 1:\n        inner14 = 1\n    let z14 = n"
    ),
    "scope_other_function_local": dict(bad=f"let z15 = {L}a{R}", good="let z15 = n"),
    "ctor_missing_field": dict(bad=f"let z = {L}Point(x=1){R}", good="let z = Point(x=1, y=2)"),
    "ctor_duplicate_field": dict(bad=f"let z = {L}Point(x=1, x=2, y=3){R}", good="let z = Point(x=1, y=2)"),
    "ctor_unknown_field": dict(bad=f"let z = {L}Point(x=1, y=2, zz=3){R}", good="let z = Point(x=1, y=2)"),
}

EXPR_RULES = {
    "unknown_name": dict(bad=f"{L}nope{R}", good="n"),
    "unknown_name_in_call": dict(bad=f"takes_int({L}nope{R})", good="takes_int(n)"),
    "unknown_function": dict(bad=f"{L}nofn{R}(1)", good="takes_int(1)"),
}

# declaration-level rules: whole extra declaration appended after the prelude
DECL_RULES = {
    "trait_missing_method_class": dict(bad=f"{L}class Bad with Named:\n    v: int{R}\n", good='class Good with Named:\n    v: int\n\n    def name(self) -> str:\n        return "g"\n'),
    "trait_missing_method_model": dict(bad=f"{L}model Bad with Named:\n    v: int{R}\n", good='model Good with Named:\n    v: int\n\n    def name(self) -> str:\n        return "g"\n'),
    "trait_requires_missing_field": dict(bad=f"{L}class Bad with Labeled:\n    v: int{R}\n", good="class Good with Labeled:\n    label: str\n"),
    "trait_requires_wrong_field_type": dict(bad=f"{L}class Bad with Labeled:\n    label: int{R}\n", good="class Good with Labeled:\n    label: str\n"),
    "trait_two_one_missing": dict(
        bad=f"{L}class Bad with Labeled, Named:\n    label: str{R}\n", good='class Good with Labeled, Named:\n    label: str\n\n    def name(self) -> str:\n        return "g"\n'
    ),
    "trait_method_wrong_signature": dict(
        bad=f"{L}class Bad with Named:\n    v: int\n\n    def name(self) -> int:\n        return 1{R}\n", good='class Good with Named:\n    v: int\n\n    def name(self) -> str:\n        return "g"\n'
    ),
    "unknown_name_in_const": dict(bad=f"const KK: int = {L}nope{R} + 1\n", good="const KK: int = 1 + 1\n"),
    "wrong_type_const": dict(bad=f'const KK: int = {L}"s"{R}\n', good="const KK: int = 1\n"),
    "wrong_type_field_default": dict(bad=f'model Bad:\n    v: int = {L}"s"{R}\n', good="model Good:\n    v: int = 1\n"),
}


def strip_markers(text):
    """Return (clean text, (start, end)) byte range of the marked construct."""
    s = text.index(L)
    clean = text.replace(L, "", 1)
    e = clean.index(R)
    clean = clean.replace(R, "", 1)
    bs = len(clean[:s].encode("utf-8"))
    be = len(clean[:e].encode("utf-8"))
    return clean, (bs, be)


def build(block, sctx, fctx, fn_kind):
    rt = "int" if fn_kind == "int" else "Result[int, str]"
    ret = "return 0" if fn_kind == "int" else "return Ok(0)"
    tpl, pad = FN_CTX[fctx]
    body = LOCALS + place(STMT_CTX[sctx], "S", block) + "\n" + ret
    depth = 2 if pad else 1
    return PRELUDE + tpl.replace("{P}", PARAMS).replace("{RT}", rt).replace("{B}", ind(body, depth))


def enumerate_cases(level):
    """Yield (sig, bad_src_with_markers, good_src). level 1: rule in fn body; 2: x context; 3: thorough extras."""
    for name, r in STMT_RULES.items():
        fk = r.get("fn", "int")
        yield (f"rule:{name}",), build(r["bad"], "body", "fn", fk), build(r["good"], "body", "fn", fk)
    for name, r in EXPR_RULES.items():
        yield (f"rule:{name}",), build(place(EXPR_CTX["let"], "E", r["bad"]), "body", "fn", "int"), build(place(EXPR_CTX["let"], "E", r["good"]), "body", "fn", "int")
    for name, r in DECL_RULES.items():
        yield (f"rule:{name}",), PRELUDE + r["bad"], PRELUDE + r["good"]
    if level < 2:
        return
    for name, r in STMT_RULES.items():
        fk = r.get("fn", "int")
        for sc in STMT_CTX:
            if sc != "body":
                yield (f"rule:{name}", f"sctx:{sc}"), build(r["bad"], sc, "fn", fk), build(r["good"], sc, "fn", fk)
        for fc in FN_CTX:
            if fc != "fn":
                yield (f"rule:{name}", f"fctx:{fc}"), build(r["bad"], "body", fc, fk), build(r["good"], "body", fc, fk)
    for name, r in EXPR_RULES.items():
        for ec, tpl in EXPR_CTX.items():
            if ec != "let":
                yield (f"rule:{name}", f"ectx:{ec}"), build(place(tpl, "E", r["bad"]), "body", "fn", "int"), build(place(tpl, "E", r["good"]), "body", "fn", "int")
    # declaration rules after a function / before use
    for name, r in DECL_RULES.items():
        yield (f"rule:{name}", "dctx:before_prelude"), r["bad"] + "\n\n" + PRELUDE, r["good"] + "\n\n" + PRELUDE
    if level < 3:
        return
    for name, r in STMT_RULES.items():
        fk = r.get("fn", "int")
        for sc in STMT_CTX:
            if sc == "body":
                continue
            for fc in FN_CTX:
                if fc != "fn":
                    yield (f"rule:{name}", f"sctx:{sc}", f"fctx:{fc}"), build(r["bad"], sc, fc, fk), build(r["good"], sc, fc, fk)
            for sc2 in ("if_then", "elif", "for", "while", "case_block", "if_else"):
                inner = place(STMT_CTX[sc], "S", r["bad"])
                inner_g = place(STMT_CTX[sc], "S", r["good"])
                yield (f"rule:{name}", f"sctx:{sc}", f"sctx2:{sc2}"), build(inner, sc2, "fn", fk), build(inner_g, sc2, "fn", fk)
    for name, r in EXPR_RULES.items():
        for ec, tpl in EXPR_CTX.items():
            for sc in STMT_CTX:
                if sc != "body":
                    yield (f"rule:{name}", f"ectx:{ec}", f"sctx:{sc}"), build(place(tpl, "E", r["bad"]), sc, "fn", "int"), build(place(tpl, "E", r["good"]), sc, "fn", "int")
            for fc in FN_CTX:
                if fc != "fn":
                    yield (f"rule:{name}", f"ectx:{ec}", f"fctx:{fc}"), build(place(tpl, "E", r["bad"]), "body", fc, "int"), build(place(tpl, "E", r["good"]), "body", fc, "int")
    # two rule breakers in one function: both must be located
    names = list(STMT_RULES)
    for i, a in enumerate(names):
        for b in names[i + 1 :: 5]:
            if STMT_RULES[a].get("fn", "int") != STMT_RULES[b].get("fn", "int"):
                continue
            fk = STMT_RULES[a].get("fn", "int")
            good = STMT_RULES[a]["good"].replace("let z", "let z1").replace("let j", "let j1").replace("mut j", "mut j1").replace("j = 2", "j1 = 2") + "\n" + STMT_RULES[b]["good"]
            bad = STMT_RULES[a]["good"].replace("let z", "let z1").replace("mut j", "mut j1").replace("j = 2", "j1 = 2") + "\n" + STMT_RULES[b]["bad"]
            yield (f"rule:{b}", f"after_good:{a}"), build(bad, "body", "fn", fk), build(good, "body", "fn", fk)


def judge(bad_res, rng):
    """None if rejected with a located error; else failure kind."""
    if bad_res.get("crashed") or bad_res.get("panic"):
        return "checker-crashed"
    if not bad_res.get("parses"):
        return "MACHINERY:bad program does not parse: " + str(bad_res.get("why"))
    if bad_res.get("ok"):
        return "accepted"
    s, e = rng
    for m, es, ee in bad_res["errs"]:
        if (es < e and ee > s) or (s <= es <= e and es == ee):
            return None
    return "rejected-but-no-error-inside-construct"


def run(tier):
    common.build()
    out = common.Outcome("C03", tier)
    level = 3 if tier == "thorough" else 2
    cases = []
    for sig, bad, good in enumerate_cases(level):
        clean, rng = strip_markers(bad)
        cases.append((sig, clean, rng, good))
    reqs = []
    for i, (sig, bad, rng, good) in enumerate(cases):
        reqs.append({"id": f"b{i}", "op": "types", "src": bad})
        reqs.append({"id": f"g{i}", "op": "types", "src": good})
    res = serve.run_requests(reqs)
    l1 = {}
    verdicts = []
    twins_rejected = []
    for i, (sig, bad, rng, good) in enumerate(cases):
        g = res[f"g{i}"]
        if not g.get("ok"):
            twins_rejected.append((sig, g.get("errs") or g.get("why")))
            verdicts.append("twin-rejected")
            continue
        k = judge(res[f"b{i}"], rng)
        if k and k.startswith("MACHINERY"):
            raise common.MachineryError(f"{sig}: {k}")
        verdicts.append(k)
        if len(sig) == 1 and k:
            l1[sig[0]] = k
    # twins that are rejected in a context mask that context: attribute to the context (checker rejects a well-typed program
    # is not C03's subject) – they are reported in the evidence, and are a machinery error only at level 1
    for sig, why in twins_rejected:
        if len(sig) == 1:
            raise common.MachineryError(f"benign twin of {sig} is rejected: {why}")
    # a rule that holds in the function body but fails in every nested statement block is one failure class, not one per block
    nested_blocks = {f"sctx:{c}" for c in STMT_CTX if c != "body" and not c.startswith("after_")}
    failing_ctx = {}
    for (sig, bad, rng, good), k in zip(cases, verdicts):
        if k and k != "twin-rejected" and len(sig) == 2 and sig[1].startswith("sctx:"):
            failing_ctx.setdefault((sig[0], k), set()).add(sig[1])
    every_nested = {rk for rk, ctxs in failing_ctx.items() if nested_blocks <= ctxs}
    by_key = {}
    for (sig, bad, rng, good), k, i in zip(cases, verdicts, range(len(cases))):
        if not k or k == "twin-rejected":
            continue
        if l1.get(sig[0]) == k:
            key = f"{sig[0]}|{k}"
        elif (sig[0], k) in every_nested and len(sig) >= 2 and any(x in nested_blocks or x.replace("sctx2:", "sctx:") in nested_blocks for x in sig[1:]):
            key = f"{sig[0]}@every-nested-block|{k}"
        else:
            key = "@".join(sig[:2]) + f"|{k}"
        by_key.setdefault(key, []).append({"sig": list(sig), "kind": k, "src": bad, "range": list(rng), "construct": bad.encode()[rng[0] : rng[1]].decode(), "errors": res[f"b{i}"].get("errs")})
    for key, cs in by_key.items():
        cs.sort(key=lambda c: (len(c["sig"]), len(c["src"])))
        for c in cs[:2]:
            out.fail(key, c)
        if key in out.known_seen:
            out.known_seen[key][0] = len(cs)
    ok_sigs = {c[0] for c, k in zip(cases, verdicts) if k is None}
    cli = cli_slice(out, [c for c, k in zip(cases, verdicts) if k is None][:12])
    dep = dependency_part(out, skip=set(l1))
    cov = {
        "evaluations": len(cases) * 2,
        "distinct_nontrivial": len(ok_sigs),
        "rule": "rule x context: each rule-breaking construct (unknown name; use of a name outside the block / arm / comprehension / closure / function that binds it (15 scope rules); wrong type in annotated let / reassignment / return / argument / field assignment / constructor "
        "field / const / default; reassigning, compound-assigning or field-assigning an immutable binding incl. params and outer bindings; `?` on non-Result / incompatible error; "
        "non-exhaustive match over enum/Option/Result incl. foreign-constructor, duplicate and guard-only arms; constructor with missing/duplicate/unknown field; trait adoption "
        "without method / @requires field) in every statement, function and expression context (level 2), nested two deep and after another construct (level 3); every level-1 rule also with the offending function living in an imported module (alone, and in a diamond: types in one imported module, functions in another, the entry importing both in either order; and with the traits in a module of their own that the offending module imports by name), judged on the real "
        "CLI's exit status and the file:line it reports; "
        "non-trivial = rule x context pair whose benign twin is accepted and whose offending variant is rejected with an error inside the construct",
        "samples": [{"sig": list(c[0]), "construct": c[1].encode()[c[2][0] : c[2][1]].decode()} for c in common.pick_samples(cases)],
        "exhaustive": True,
        "level": level,
        "pairs_enumerated": len(cases),
        "twin_rejected_contexts": sorted({"@".join(s) for s, _ in twins_rejected})[:40],
        "failing_by_class": {k: len(v) for k, v in by_key.items()},
        "cli_slice": cli,
        **dep,
    }
    return out.finish(
        cov,
        assumptions=[
            "the rule list is the one in the property statement; `x = v` on an existing outer binding is a reassignment (scopes_and_name_resolution.md)",
            "an error is 'inside the construct' if its span intersects the construct's byte range",
            "a context whose benign twin is rejected is excluded (reported in twin_rejected_contexts)",
        ],
    )


def dependency_part(out, incan=None, skip=()):
    """The same level-1 rule breakers, living in an imported module: `incan --check main.incn` (the real CLI; the
    in-process checker sees one file) must reject the project and point into the dependency file, inside the construct."""
    import os
    import re
    import shutil
    import subprocess
    from multiprocessing.pool import ThreadPool

    common.build(need_cli=True)
    incan = incan or common.INCAN
    root = os.path.join(common.BUILD, "c03dep")
    shutil.rmtree(root, ignore_errors=True)
    cases = []
    for sig, bad, good in enumerate_cases(1):
        if sig[0] in skip:
            continue  # the rule does not hold in a single file either (reported there)
        clean, rng = strip_markers(bad)
        cases.append((sig, clean, rng, good))
    env = {"PATH": os.environ.get("PATH", ""), "RUST_LOG": "off"}

    def split_blocks(text):
        blocks, cur = [], []
        for line in text.split("\n"):
            if re.match(r"^(def|model|class|enum|trait|type|const|@|pub )", line) and cur and not cur[-1].startswith("@") and "".join(cur).strip():
                blocks.append("\n".join(cur).rstrip("\n"))
                cur = []
            cur.append(line)
        if "".join(cur).strip():
            blocks.append("\n".join(cur).rstrip("\n"))
        return blocks

    def run_one(job):
        k, text, shape = job
        d = os.path.join(root, f"p{k}")
        os.makedirs(d, exist_ok=True)
        # every top-level declaration of the library is public, the entry file imports one prelude function
        lib = re.sub(r"^(def|model|class|enum|trait|type|const) ", r"pub \1 ", text, flags=re.M)
        if shape == "single":
            open(os.path.join(d, "rulelib.incn"), "w", encoding="utf-8").write(lib)
            open(os.path.join(d, "main.incn"), "w", encoding="utf-8").write("from rulelib import takes_int\n\n\ndef main() -> None:\n    println(takes_int(1))\n")
        elif shape == "traits_apart":
            # the traits live in ruletraits.incn and are imported BY NAME by the module that holds everything else (the
            # importing module's own import statement meets a name the checker already knows as a trait)
            blocks = split_blocks(lib)
            is_trait = lambda b: re.search(r"^pub trait ", b, re.M)
            traits = [b for b in blocks if is_trait(b)]
            rest = [b for b in blocks if not is_trait(b)]
            tnames = re.findall(r"^pub trait (\w+)", "\n".join(traits), re.M)
            open(os.path.join(d, "ruletraits.incn"), "w", encoding="utf-8").write("\n\n\n".join(traits) + "\n")
            lib = "from ruletraits import " + ", ".join(tnames) + "\n\n\n" + "\n\n\n".join(rest) + "\n"
            open(os.path.join(d, "rulelib.incn"), "w", encoding="utf-8").write(lib)
            open(os.path.join(d, "main.incn"), "w", encoding="utf-8").write("from rulelib import takes_int\n\n\ndef main() -> None:\n    println(takes_int(1))\n")
        else:
            # diamond: the types live in ruletypes.incn, the functions (incl. the offending one) in rulelib.incn, which imports
            # the types; the entry file imports both, the function module first or last
            blocks = split_blocks(lib)
            is_fn = lambda b: re.search(r"^pub (def|async def) ", b, re.M) and not re.search(r"^pub (model|class|enum|trait|type|const) ", b, re.M)
            types = [b for b in blocks if not is_fn(b)]
            funcs = [b for b in blocks if is_fn(b)]
            tnames = re.findall(r"^pub (?:model|class|enum|trait|type|const) (\w+)", "\n".join(types), re.M)
            open(os.path.join(d, "ruletypes.incn"), "w", encoding="utf-8").write("\n\n\n".join(types) + "\n")
            lib = "from ruletypes import " + ", ".join(tnames) + "\n\n\n" + "\n\n\n".join(funcs) + "\n"
            open(os.path.join(d, "rulelib.incn"), "w", encoding="utf-8").write(lib)
            lines = ["from rulelib import takes_int", "from ruletypes import Point"]
            if shape == "diamond_types_first":
                lines.reverse()
            open(os.path.join(d, "main.incn"), "w", encoding="utf-8").write("\n".join(lines) + "\n\n\ndef main() -> None:\n    println(takes_int(1))\n")
        p = subprocess.run([incan, "--no-banner", "--color", "never", "--check", "main.incn"], cwd=d, env=env, capture_output=True, text=True, timeout=60)
        files = {f: open(os.path.join(d, f), encoding="utf-8").read() for f in ("rulelib.incn", "ruletypes.incn", "ruletraits.incn") if os.path.exists(os.path.join(d, f))}
        return p.returncode, re.sub(r"\x1b\[[0-9;]*m", "", p.stdout + p.stderr), files

    shapes = ("single", "diamond_functions_first", "diamond_types_first", "traits_apart")
    base_cases = cases
    cases = [(sig + (f"shape:{sh}",), bad, rng, good) for (sig, bad, rng, good) in base_cases for sh in shapes if sh == "single" or L not in PRELUDE]
    jobs = []
    for i, (sig, bad, rng, good) in enumerate(cases):
        sh = sig[-1].split(":", 1)[1]
        jobs.append((2 * i, bad, sh))
        jobs.append((2 * i + 1, good, sh))
    with ThreadPool(common.NCPU) as pool:
        res = pool.map(run_one, jobs)
    n_ok = 0
    unusable = []
    for i, (sig, bad, rng, good) in enumerate(cases):
        (brc, btext, blib), (grc, gtext, _) = res[2 * i], res[2 * i + 1]
        shape = sig[-1]
        sig = sig[:-1] if shape == "shape:single" else (sig[0] + "@" + shape,) + sig[1:-1]
        if grc != 0:
            unusable.append(sig[0])  # the benign twin is not accepted as a library on this tree: position unusable
            continue
        case = {"sig": list(sig) + ["in-dependency-module"], "src": "\n".join(f"# --- {k}\n{v}" for k, v in blib.items()), "main": "from rulelib import takes_int ...", "construct": bad.encode()[rng[0] : rng[1]].decode(), "cli_output": btext[-600:], "exit": brc}
        if brc == 0:
            out.fail(f"dep-module|{sig[0]}|accepted", {**case, "kind": "accepted"})
            continue
        if brc != 1:
            out.fail(f"dep-module|{sig[0]}|abnormal-exit", {**case, "kind": f"exit {brc}"})
            continue
        # location: rulelib.incn:<line>:<col> of some error must fall on a line of the construct (pub prefixes do not add lines)
        construct = bad.encode()[rng[0] : rng[1]].decode()
        pub_construct = re.sub(r"^(def|model|class|enum|trait|type|const) ", r"pub \1 ", construct, flags=re.M)
        # locate the construct's first line in the generated files by its text (pub prefixes aside), same occurrence
        strip_pub = lambda t: re.sub(r"^pub ", "", t)
        bad_lines = bad.split("\n")
        l0 = bad.encode()[: rng[0]].decode().count("\n")
        line_text = strip_pub(bad_lines[l0])
        nth = sum(1 for t in bad_lines[:l0] if strip_pub(t) == line_text)
        where = None
        for fname, ftext in blib.items():
            hits = [k for k, t in enumerate(ftext.split("\n")) if strip_pub(t) == line_text]
            if hits and where is None:
                where = (fname, hits[min(nth, len(hits) - 1)] + 1)
        if where is None:
            raise common.MachineryError(f"construct of {sig} not found in the generated library files")
        target_file, first = where
        last = first + construct.count("\n")
        locs = [(f, int(l)) for f, l in re.findall(r"--> (\S+?):(\d+):\d+", btext)]
        if not any(f.endswith(target_file) and first <= l <= last for f, l in locs):
            out.fail(f"dep-module|{sig[0]}|rejected-but-not-located-in-the-dependency", {**case, "kind": "location", "locations": locs, "construct_lines": [first, last]})
        else:
            n_ok += 1
    shutil.rmtree(root, ignore_errors=True)
    return {"dependency_module_cases": len(cases), "dependency_module_located": n_ok, "dependency_module_unusable_twins": sorted(set(unusable))}


def cli_slice(out, cases):
    """Bind the in-process verdicts to the real CLI: `incan --check` must exit non-zero on a slice of rejected programs."""
    import os
    import tempfile

    if not cases:
        return {"runs": 0}
    common.build(need_cli=True)
    n = 0
    with tempfile.TemporaryDirectory(dir=common.BUILD) as d:
        for i, (sig, bad, rng, good) in enumerate(cases):
            for tag, src, want_ok in (("bad", bad, False), ("good", good, True)):
                p = os.path.join(d, f"c{i}_{tag}.incn")
                open(p, "w", encoding="utf-8").write(src)
                r = subprocess.run([common.INCAN, "--no-banner", "--check", p], capture_output=True, text=True)
                n += 1
                if (r.returncode == 0) != want_ok:
                    out.fail("cli-disagrees-with-library", {"sig": list(sig), "kind": f"incan --check exit {r.returncode} on {tag} twin", "src": src, "range": list(rng)})
    return {"runs": n}


def replay(path):
    common.build()
    rec = json.load(open(path, encoding="utf-8"))
    c = rec["case"]
    p = subprocess.run([common.IVH, "serve"], input=json.dumps({"id": 0, "op": "types", "src": c["src"]}) + "\n", capture_output=True, text=True, encoding="utf-8")
    r = json.loads(p.stdout)
    k = judge(r, tuple(c["range"]))
    print(c["src"])
    print("offending construct bytes", c["range"], "->", c.get("construct"))
    print("checker:", "accepted" if r.get("ok") else r.get("errs"))
    print("verdict:", k or "rejected with located error")
    return 1 if k else 0
