#!/usr/bin/env python3
"""keep_seed.py <Cxx> <worktree> <needs> <detected_by> [ported_patch] – store a confirmed seeded change under /verif/seeded/<Cxx>[-n]/"""
import json, os, shutil, sys, subprocess
pid, wt, needs, detected = sys.argv[1:5]
ported = sys.argv[5] if len(sys.argv) > 5 else None
base = f"/verif/seeded/{pid}"
d, n = base, 1
while os.path.exists(d):
    n += 1
    d = f"{base}-{n}"
os.makedirs(d)
seed = os.path.join(wt, "_seed")
shutil.copy(os.path.join(seed, "patch.diff"), os.path.join(d, "patch.diff"))
if ported:
    shutil.copy(ported, os.path.join(d, "patch_ported_to_fixed_tree.diff"))
os.makedirs(os.path.join(d, "demo"), exist_ok=True)
for root, dirs, files in os.walk(seed):
    dirs[:] = [x for x in dirs if x not in ("target", "out", "logs", "tgt", "shared-target")]
    for f in files:
        p = os.path.join(root, f)
        if f == "patch.diff" or os.path.getsize(p) > 200_000 or f.endswith(".log") and "suite" in f:
            continue
        rel = os.path.relpath(p, seed)
        os.makedirs(os.path.dirname(os.path.join(d, "demo", rel)), exist_ok=True)
        shutil.copy(p, os.path.join(d, "demo", rel))
confirm = open(os.path.join(seed, "CONFIRM.txt")).read() if os.path.exists(os.path.join(seed, "CONFIRM.txt")) else ""
base_commit = subprocess.run(["git", "-C", wt, "rev-parse", "HEAD"], capture_output=True, text=True).stdout.strip()
meta = {
    "property": pid,
    "seeded_by": "independent sub-agent given only the property text and a scratch worktree",
    "base_commit": base_commit,
    "needs_to_manifest": needs,
    "confirmed_by_me": {
        "ran": "tools/confirm_seed.sh <worktree>: git apply --check; cargo test --workspace --no-fail-fast --offline with the change; bash _seed/run.sh with and without the change",
        "result": confirm.strip().splitlines(),
    },
    "detected_by": detected,
    "how_to_run": "git -C /repo apply [--3way] patch.diff (or patch_ported_to_fixed_tree.diff); ./check " + pid + " --tier quick; git -C /repo checkout -- .",
}
json.dump(meta, open(os.path.join(d, "meta.json"), "w"), indent=1)
print("kept", d)
