"""C06 – compile-time evaluation agrees with run-time evaluation.

Static half (in-process): for every const-evaluable expression in the alphabet, whatever the real checker decides about
`const K = e` (accepted with a value, accepted without a value, rejected with an IndexError / ValueError text) is compared
with CPython's evaluation of the same expression. All const dependency graphs on 3 names x 4 initializer shapes (annotated / unannotated sums, bare and annotated aliases) are checked for cycle reporting
and termination. Dynamic half (real CLI): for accepted consts the program prints K and the same expression evaluated in a
function body; both must equal the reference.
"""
import itertools
import json
import re
import subprocess

from . import common, pipe, sem, serve

ENV = {"S": "héllo", "T": "wör", "E": "", "A": "a𝄞b"}
DECLS = "".join(f'const {k}: str = "{v}"\n' for k, v in ENV.items()) + "const N: int = 2\nconst M: int = -1\nconst F: float = 1.5\nconst B: bool = True\n"
PYENV = dict(ENV, N=2, M=-1, F=1.5, B=True)
IDX = [-6, -5, -1, 0, 1, 4, 5, 9]
PARTS = [None, -7, -2, 0, 1, 3, 9]
STEPS = [None, 1, 2, -1, -2, 0]


def sl(a, b, c):
    f = lambda v: "" if v is None else str(v)
    if c is None:
        return f"{f(a)}:{f(b)}"
    return f"{f(a)}:{f(b)}:{f(c)}"


def expressions(tier):
    """Yield (sig, text)."""
    thorough = tier == "thorough"
    for lit in ("0", "42", "-7", "1.5", "-0.5", "True", "False", '"x"', '"héllo 𝄞"', '""'):
        yield ("literal",), lit
    for k in ("S", "N", "F", "B"):
        yield ("const-ref",), k
    yield ("unary-neg",), "-N"
    yield ("unary-neg",), "-F"
    yield ("unary-not",), "not B"
    for op in ("+", "-", "*", "/", "//", "%", "**"):
        for l, r in (("N", "3"), ("7", "2"), ("F", "N"), ("7.5", "2"), ("M", "N"), ("2", "N"), ("7", "F")):
            yield ("numeric", op), f"{l} {op} {r}"
    for op in ("==", "!=", "<", "<=", ">", ">="):
        for l, r in (("N", "3"), ("F", "N"), ("S", "T"), ('"a"', '"b"')):
            yield ("compare", op), f"{l} {op} {r}"
    for op in ("and", "or"):
        for l, r in (("B", "False"), ("True", "B"), ("not B", "B")):
            yield ("logic", op), f"{l} {op} {r}"
    for l, r in (("S", "T"), ("S", '"!"'), ('"a"', '"b"'), ("E", "S"), ("A", "A")):
        yield ("concat",), f"{l} + {r}"
        yield ("concat3",), f"{l} + {r} + {l}"
    for n, h in (('"é"', "S"), ('"z"', "S"), ("T", "S"), ("E", "S"), ('"𝄞"', "A"), ('"ll"', "S")):
        yield ("in",), f"{n} in {h}"
        yield ("not-in",), f"{n} not in {h}"
    for base in ("S", "E", "A", '"héllo"'):
        for i in IDX:
            yield ("index", "neg" if i < 0 else "pos"), f"{base}[{i}]"
    bases = ("S", "A", "E") if thorough else ("S", "A")
    for base in bases:
        for a, b in itertools.product(PARTS, PARTS):
            for c in STEPS:
                if not thorough and (a, b, c).count(None) == 0 and c not in (2, -2, 0):
                    continue
                yield ("slice", "start" if a is not None else "nostart", "end" if b is not None else "noend", f"step:{c}"), f"{base}[{sl(a, b, c)}]"
    # depth 2: index/slice of a slice, concat of slices, membership in a slice
    for a, b, c in ((1, 4, None), (None, None, -1), (None, 3, -1), (1, None, 2), (None, None, 0)):
        for i in (0, -1, 3):
            yield ("slice-then-index", f"step:{c}"), f"S[{sl(a, b, c)}][{i}]"
        yield ("slice-concat", f"step:{c}"), f"S[{sl(a, b, c)}] + T"
        yield ("in-slice", f"step:{c}"), f'"l" in S[{sl(a, b, c)}]'
        yield ("slice-of-slice", f"step:{c}"), f"S[{sl(a, b, c)}][{sl(None, None, -1)}]"
    for i in (0, 4, 5):
        yield ("index-then-concat",), f"S[{i}] + T[0]"
    # frozen collections / tuples: type and build only
    for e in ('(1, "a")', "[1, 2, 3]", '{"a": 1}', "{1, 2}", '["a", "b"]'):
        yield ("collection",), e


def py_eval(e):
    try:
        txt = e
        v = eval(txt, {}, dict(PYENV))
        return ("ok", v)
    except IndexError:
        return ("err", "IndexError: string index out of range")
    except ValueError as ex:
        if "step" in str(ex):
            return ("err", "ValueError: slice step cannot be zero")
        return ("err", "ValueError")
    except ZeroDivisionError:
        return ("err", "ZeroDivisionError: float division by zero")


def const_value_to_py(v):
    if "int" in v:
        return int(v["int"])
    if "float" in v:
        import struct

        return struct.unpack("<d", struct.pack("<Q", int(v["float"], 16)))[0]
    if "bool" in v:
        return v["bool"]
    if "str" in v:
        return v["str"]
    if "bytes" in v:
        return bytes(v["bytes"])
    return None


GRAPH_SHAPES = ("annotated_sum", "unannotated_sum", "bare_alias", "annotated_alias")


def graphs():
    """All dependency graphs on 3 const names x initializer shape. Shapes: `const N: int = A + B + 1`, the same without
    the annotation, and - for nodes with exactly one dependency - the bare alias `const N = A` / `const N: int = A`."""
    names = ["GA", "GB", "GC"]
    edges = [(a, b) for a in names for b in names]
    m = 0
    for mask in range(1 << len(edges)):
        es = [edges[i] for i in range(len(edges)) if mask >> i & 1]
        adj = {n: [b for (a, b) in es if a == n] for n in names}

        def reach(x, y, seen=None):
            seen = seen or set()
            for z in adj[x]:
                if z == y:
                    return True
                if z not in seen:
                    seen.add(z)
                    if reach(z, y, seen):
                        return True
            return False

        cyc = any(reach(n, n) for n in names)
        for shape in GRAPH_SHAPES:
            if shape.endswith("alias") and not any(len(adj[n]) == 1 for n in names):
                continue
            src = ""
            for n in names:
                deps = adj[n]
                ann = ": int" if shape.startswith("annotated") else ""
                if shape.endswith("alias") and len(deps) == 1:
                    src += f"const {n}{ann} = {deps[0]}\n"
                else:
                    src += f"const {n}{ann} = " + " + ".join(deps + ["1"]) + "\n"
            yield m, es, src, cyc
            m += 1


def run(tier):
    common.build(need_cli=True)
    out = common.Outcome("C06", tier)
    exprs = list(expressions(tier))
    reqs = [{"id": i, "op": "types", "src": DECLS + f"const K = {e}\n"} for i, (sig, e) in enumerate(exprs)]
    res = serve.run_requests(reqs)
    sig_ok = set()
    n_static = 0
    dynamic = []
    for i, (sig, e) in enumerate(exprs):
        r = res[i]
        n_static += 1
        st, pv = py_eval(e)
        case = {"expr": e, "program": DECLS + f"const K = {e}\n", "reference": repr(pv)}
        if r.get("crashed") or r.get("panic"):
            out.fail(f"{sig[0]}|checker-crashed-or-hung", case)
            continue
        if r.get("ok"):
            cv = r["consts"].get("K")
            if cv is not None:
                got = const_value_to_py(cv)
                if st != "ok":
                    out.fail(f"{sig[0]}|const-has-value-but-runtime-raises", {**case, "const_value": repr(got)})
                    continue
                same = (got == pv) and (type(got) is type(pv) or isinstance(pv, bool) == isinstance(got, bool))
                if isinstance(pv, float) and isinstance(got, float):
                    import math

                    same = same and math.copysign(1, pv) == math.copysign(1, got)
                if not same:
                    out.fail(f"{sig[0]}|const-value-differs", {**case, "const_value": repr(got)})
                    continue
            sig_ok.add(sig + ("static",))
            if sig[0] != "collection" and st == "ok":
                dynamic.append((sig, e, pv))
            elif st == "err":
                dynamic.append((sig, e, pv))  # accepted without a value although evaluation raises: run-time must raise
        else:
            msgs = [m for m, _, _ in r.get("errs", [])]
            ce = [m for m in msgs if m.startswith(("IndexError", "ValueError", "ZeroDivisionError"))]
            if ce:
                if st == "ok":
                    out.fail(f"{sig[0]}|compile-time-error-but-runtime-succeeds", {**case, "compile_time": ce})
                elif ce[0] != pv:
                    out.fail(f"{sig[0]}|compile-time-error-kind-differs", {**case, "compile_time": ce})
                else:
                    sig_ok.add(sig + ("static-error",))
            else:
                # rejected for another reason (construct not allowed in const initialisers): outside the domain
                pass
    # ---- declaration order and annotations -----------------------------------------------------------------------------
    # (a) the same initializer with the consts it refers to declared *after* it, and with those consts un-annotated: verdict
    #     and value of K, and the values of the consts referred to, must not depend on either
    names_re = re.compile(r"\b(" + "|".join(list(ENV) + ["N", "M", "F", "B"]) + r")\b")
    refs = [(i, sig, e) for i, (sig, e) in enumerate(exprs) if names_re.search(e)]
    decls_u = "".join(f'const {k} = "{v}"\n' for k, v in ENV.items()) + "const N = 2\nconst M = -1\nconst F = 1.5\nconst B = True\n"
    shapes = {"forward": lambda e: f"const K = {e}\n" + DECLS, "unannotated": lambda e: decls_u + f"const K = {e}\n", "forward_unannotated": lambda e: f"const K = {e}\n" + decls_u}
    oreqs = [{"id": f"{sh}:{i}", "op": "types", "src": mk(e)} for (i, sig, e) in refs for sh, mk in shapes.items()]
    ores = serve.run_requests(oreqs)

    def summary(r):
        if r.get("crashed") or r.get("panic"):
            return ("crashed",)
        if r.get("ok"):
            v = r["consts"].get("K")
            return ("ok", repr(const_value_to_py(v)) if v is not None else None)
        return ("err", tuple(sorted(m for m, _, _ in r.get("errs", []) if m.startswith(("IndexError", "ValueError", "ZeroDivisionError")))))

    for (i, sig, e) in refs:
        base_sum = summary(res[i])
        for sh, mk in shapes.items():
            r = ores[f"{sh}:{i}"]
            n_static += 1
            got = summary(r)
            if got != base_sum and not (sh.endswith("unannotated") and got[0] == base_sum[0] == "ok" and None in (got[1], base_sum[1])):
                out.fail(f"{sig[0]}|{sh}-declaration-order-changes-the-result", {"expr": e, "program": mk(e), "with_dependencies_declared_first_and_annotated": base_sum, "this_shape": got})
                continue
            if r.get("ok"):
                wrong = {k: repr(const_value_to_py(v)) for k, v in r["consts"].items() if k in PYENV and v is not None and const_value_to_py(v) != PYENV[k]}
                missing = [k for k in PYENV if isinstance(PYENV[k], str) and names_re.search(e) and k in e and r["consts"].get(k) is None and res[i].get("ok") and res[i]["consts"].get(k) is not None]
                if wrong or missing:
                    out.fail(f"{sig[0]}|{sh}-referenced-const-value-lost-or-wrong", {"expr": e, "program": mk(e), "wrong": wrong, "no_value_although_known_in_the_other_order": missing})
                    continue
            sig_ok.add(sig + (sh,))
    # (b) an annotation that contradicts the initializer must be rejected wherever the const stands relative to its users
    lits = {"int": "10", "float": "1.5", "str": '"ten"', "bool": "True"}
    areqs, ameta = [], []
    for ann in lits:
        for init_ty, init in lits.items():
            for order in ("user_first", "user_last", "no_user"):
                decl = f"const LIMIT: {ann} = {init}\n"
                src = {"user_first": "const ALIAS = LIMIT\n" + decl, "user_last": decl + "const ALIAS = LIMIT\n", "no_user": decl}[order]
                areqs.append({"id": len(ameta), "op": "types", "src": src})
                ameta.append((ann, init_ty, order, src))
    ares = serve.run_requests(areqs)
    verdict_fn = {}
    freqs = [{"id": k, "op": "types", "src": f"def t() -> None:\n    x: {ann} = {init}\n"} for k, (ann, (init_ty, init)) in enumerate(itertools.product(lits, lits.items()))]
    fres = serve.run_requests(freqs)
    for k, (ann, (init_ty, init)) in enumerate(itertools.product(lits, lits.items())):
        verdict_fn[(ann, init_ty)] = bool(fres[k].get("ok"))
    for k, (ann, init_ty, order, src) in enumerate(ameta):
        n_static += 1
        r = ares[k]
        if r.get("crashed") or r.get("panic"):
            out.fail("annotation|checker-crashed-or-hung", {"program": src})
        elif bool(r.get("ok")) != verdict_fn[(ann, init_ty)]:
            out.fail(f"annotation|const-{'accepted' if r.get('ok') else 'rejected'}-but-local-binding-{'accepted' if verdict_fn[(ann, init_ty)] else 'rejected'}|{order}", {"program": src, "annotation": ann, "initializer_type": init_ty, "same_binding_in_a_function_body_accepted": verdict_fn[(ann, init_ty)], "checker": r.get("errs")})
        else:
            sig_ok.add(("annotation", ann, init_ty, order))
    # (c) the type the const evaluator gives an initializer is the type the same expression has in a function body: under each
    #     of 4 annotations the const declaration and the local binding get the same verdict (consts referred to: annotated,
    #     and - second layout - un-annotated)
    treqs, tmeta = [], []
    for i, (sig, e) in enumerate(exprs):
        if not res[i].get("ok") or sig[0] == "collection":
            continue
        for ann in lits:
            for dn, d in (("annotated", DECLS), ("unannotated", decls_u)):
                if dn == "unannotated" and not names_re.search(e):
                    continue
                for where, src in (("const", d + f"const K: {ann} = {e}\n"), ("local", d + f"\n\ndef t() -> None:\n    x: {ann} = {e}\n")):
                    treqs.append({"id": len(tmeta), "op": "types", "src": src})
                    tmeta.append((i, ann, dn, where, src))
    tres = serve.run_requests(treqs)
    tv = {}
    for k, (i, ann, dn, where, src) in enumerate(tmeta):
        r = tres[k]
        tv[(i, ann, dn, where)] = ("crashed" if (r.get("crashed") or r.get("panic")) else bool(r.get("ok")), src, r.get("errs"))
    for (i, ann, dn, where), (v, src, errs) in tv.items():
        if where != "const":
            continue
        n_static += 1
        sig, e = exprs[i]
        lv, lsrc, lerrs = tv[(i, ann, dn, "local")]
        if v == "crashed" or lv == "crashed":
            out.fail(f"{sig[0]}|checker-crashed-or-hung", {"expr": e, "program": src if v == "crashed" else lsrc})
        elif v != lv:
            out.fail(f"{sig[0]}|const-initializer-{'accepted' if v else 'rejected'}-as-{ann}-but-local-binding-{'accepted' if lv else 'rejected'}", {"expr": e, "annotation": ann, "referenced_consts": dn, "program": src, "const_errors": errs, "local_program": lsrc, "local_errors": lerrs})
        else:
            sig_ok.add(sig + ("typed-as", ann, v))
    # ---- cycles -------------------------------------------------------------------------------------------------
    gs = list(graphs())
    reqs = [{"id": m, "op": "types", "src": src} for m, es, src, cyc in gs]
    gres = serve.run_requests(reqs)
    for m, es, src, cyc in gs:
        r = gres[m]
        n_static += 1
        if r.get("crashed") or r.get("panic"):
            out.fail("cycle|checker-crashed-or-hung", {"program": src, "edges": es})
            continue
        reported = any("cycle" in msg.lower() for msg, _, _ in r.get("errs", []))
        if cyc and not reported:
            out.fail("cycle|not-reported", {"program": src, "edges": es, "checker": "accepted" if r.get("ok") else r.get("errs")})
        elif not cyc and not r.get("ok"):
            out.fail("cycle|acyclic-graph-rejected", {"program": src, "edges": es, "checker": r.get("errs")})
        else:
            sig_ok.add(("graph", len(es), cyc))
    # ---- dynamic --------------------------------------------------------------------------------------------------
    pipe.warm()
    if tier != "thorough":
        # one representative per signature + every 5th
        seen, pick = set(), []
        for k, d in enumerate(dynamic):
            if d[0] not in seen or k % 5 == 0:
                seen.add(d[0])
                pick.append(d)
        dynamic = pick
    ok_vals = [d for d in dynamic if py_eval(d[1])[0] == "ok"]
    err_vals = [d for d in dynamic if py_eval(d[1])[0] == "err"]
    PACKN = 12
    not_judged = {}
    n_dyn_ok = 0

    def prog(ds, base):
        lines = [DECLS]
        for j, (sig, e, pv) in enumerate(ds):
            lines.append(f"const K{base + j} = {e}\n")
        lines.append("\ndef main() -> None:\n")
        for j, (sig, e, pv) in enumerate(ds):
            lines.append(f'    println("@@{base + j}")\n    println(K{base + j})\n    v{base + j} = {e}\n    println(v{base + j})\n')
        return "".join(lines)

    packs = [(i, ok_vals[i : i + PACKN]) for i in range(0, len(ok_vals), PACKN)]
    while packs:
        rr = pipe.run_many([(k, {"prog.incn": prog(ds, base)}) for k, (base, ds) in enumerate(packs)])
        nxt = []
        for k, (base, ds) in enumerate(packs):
            r = rr[k]
            if r.stage == "run" and r.exit == 0:
                frames = frames_keep_empty(r.stdout)
                for j, (sig, e, pv) in enumerate(ds):
                    fr = frames.get(str(base + j), [])
                    ref = sem_show(pv)
                    if len(fr) != 2 or not sem.line_equal(fr[0], ref) or not sem.line_equal(fr[1], ref):
                        out.fail(f"{sig[0]}|runtime-const-or-local-differs", {"expr": e, "program": prog([(sig, e, pv)], 0), "printed_const_then_local": fr, "reference": ref})
                    else:
                        n_dyn_ok += 1
                        sig_ok.add(sig + ("dynamic",))
            elif len(ds) == 1:
                kname = f"{r.stage}:{(r.detail or '')[:60]}" if r.stage != "run" else f"run:exit{r.exit}"
                if r.stage == "run":
                    out.fail(f"{ds[0][0][0]}|const-program-stops-at-runtime", {"expr": ds[0][1], "program": prog(ds, base), "stderr": r.stderr[-400:]})
                else:
                    not_judged[kname] = not_judged.get(kname, 0) + 1
            else:
                h = len(ds) // 2
                nxt += [(base, ds[:h]), (base + h, ds[h:])]
        packs = nxt
    # accepted-without-value expressions whose evaluation raises: at run time the same expression must raise that error
    for sig, e, pv in err_vals[: (40 if tier == "thorough" else 8)]:
        src = DECLS + f"\ndef main() -> None:\n    v = {e}\n    println(v)\n"
        r = pipe.run_program(0, {"prog.incn": src})
        if r.stage != "run":
            not_judged[f"{r.stage}:{(r.detail or '')[:60]}"] = not_judged.get(f"{r.stage}:{(r.detail or '')[:60]}", 0) + 1
        elif r.exit != 101 or pv not in r.stderr:
            out.fail(f"{sig[0]}|runtime-error-differs", {"expr": e, "program": src, "expected": pv, "exit": r.exit, "stderr": r.stderr[-300:]})
        else:
            sig_ok.add(sig + ("dynamic-error",))
    cov = {
        "evaluations": n_static + len(ok_vals) + min(len(err_vals), 40 if tier == "thorough" else 8),
        "distinct_nontrivial": len(sig_ok),
        "rule": "const-evaluable expressions: literals, const references, unary -/not, 7 numeric operators, 6 comparisons, and/or, string +, in / not in, every string index in "
        "{-6,-5,-1,0,1,4,5,9} on 4 strings, every slice with start/end in {absent,-7,-2,0,1,3,9} and step in {absent,1,2,-1,-2,0} (quick: reduced 3-part product), depth-2 "
        "slice/index/concat/membership combinations, tuples and frozen collections; every initializer that refers to another const again with that const declared after it and / or un-annotated (result and referenced values must not change); every accepted initializer under 4 annotations as a const and as a local binding in a function body (same verdict; referenced consts annotated / un-annotated); 4 annotations x 4 initializer types x 3 positions relative to a user of the const (verdict must equal that of the same binding in a function body); all 512 dependency graphs on 3 consts x 4 initializer shapes (annotated sum, unannotated sum, bare alias, annotated alias); static oracle = CPython evaluation vs the checker's "
        "verdict and computed const value; dynamic oracle = printed const == same expression in a function body == reference",
        "samples": [{"sig": list(s), "expr": e} for s, e in common.pick_samples(exprs)],
        "exhaustive": True,
        "expressions": len(exprs),
        "graphs": len(gs),
        "dynamic_values_compared": n_dyn_ok,
        "dynamic_not_judged_build_failures": not_judged,
    }
    pipe.prune_targets()
    return out.finish(
        cov,
        assumptions=[
            "CPython string indexing / slicing / membership / concatenation and arithmetic are the reference for the value an initialiser denotes",
            "expressions the checker rejects as 'not allowed inside const initializers' are outside the domain",
            "consts whose program does not build are not judged here (they are C02 material) but are counted in the evidence",
        ],
    )


def frames_keep_empty(stdout):
    """Like sem.split_frames but empty output lines are data here (a const may be the empty string)."""
    lines = stdout.split("\n")
    if lines and lines[-1] == "":
        lines.pop()
    frames, cur = {}, None
    for line in lines:
        if line.startswith("@@"):
            cur = line[2:]
            frames[cur] = []
        elif cur is not None:
            frames[cur].append(line)
    return frames


def sem_show(v):
    if v is True:
        return "true"
    if v is False:
        return "false"
    if isinstance(v, float):
        return "F" + repr(v)
    return str(v)


def replay(path):
    common.build(need_cli=True)
    rec = json.load(open(path, encoding="utf-8"))
    c = rec["case"]
    p = subprocess.run([common.IVH, "serve"], input=json.dumps({"id": 0, "op": "types", "src": c["program"]}) + "\n", capture_output=True, text=True, encoding="utf-8")
    r = json.loads(p.stdout)
    print(c["program"])
    print("checker:", "accepted" if r.get("ok") else r.get("errs"), "| const values:", r.get("consts"))
    if "expr" in c:
        print("reference:", py_eval(c["expr"]))
    if "def main" in c["program"]:
        rr = pipe.run_program(0, {"prog.incn": c["program"]})
        print("run:", rr.stage, rr.exit, rr.stdout, rr.stderr[-300:])
    return 1
