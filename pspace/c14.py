"""C14 – imports resolve the same everywhere and respect visibility.

(1) Resolution agreement: for every (project tree, importer location, import spelling) the file the command-line compiler
    loads (`cli::commands::collect_modules`, identified by a unique marker in every candidate file) and the file the real
    language server loads (the URI it publishes dependency diagnostics for) must be the same, or both unresolved.
(2) Visibility: a program that uses a non-`pub` item of another module is rejected by `incan --check`; the `pub` twin is
    accepted.
(3) Import graphs on <= 3 files (incl. self-imports and cycles) and missing modules: `incan --check` terminates with exit
    status 0 or 1 (never a crash or hang); a missing module yields a diagnostic.
"""
import itertools
import json
import os
import shutil
import subprocess
from multiprocessing.pool import ThreadPool

from . import common

ROOT = os.path.join(common.BUILD, "c14")

# candidate files for a module called `m` (relative to the project root) -> marker id
CANDIDATES = {
    "m.incn": "marker_root_m_incn",
    "m.incan": "marker_root_m_incan",
    "m/mod.incn": "marker_root_m_mod",
    "d/m.incn": "marker_d_m_incn",
    "d/m.incan": "marker_d_m_incan",
    "d/m/mod.incn": "marker_d_m_mod",
    "d/e/m.incn": "marker_d_e_m_incn",
    "d/d/m.incn": "marker_d_d_m_incn",
    "src/m.incn": "marker_src_m_incn",
    "src/d/m.incn": "marker_src_d_m_incn",
    "m/x.incn": "marker_root_m_x",
    "d/m/x.incn": "marker_d_m_x",
}
SPELLINGS = {
    "import_m": "import m",
    "import_m_alias": "import m as k",
    "import_d_colons_m": "import d::m",
    "import_d_dot_m": "import d.m",
    "from_m": "from m import x",
    "from_m_alias": "from m import x as y",
    "from_d_dot_m": "from d.m import x",
    "from_d_colons_m": "from d::m import x",
    "from_parent_m": "from ..m import x",
    "from_parent_d_m": "from ..d.m import x",
    "from_super_m": "from super::m import x",
    "import_super_m": "import super::m",
    "from_crate_m": "from crate::m import x",
    "from_crate_d_m": "from crate::d::m import x",
    "import_m_item": "import m::x",
    "import_d_m_item": "import d::m::x",
}
ENTRIES = {"root": "main.incn", "in_d": "d/entry.incn", "in_d_e": "d/e/entry.incn"}


def module_text(marker):
    return f"pub def {marker}() -> int:\n    return 1\n\n\npub def x() -> int:\n    return 2\n"


def trees():
    """name -> set of candidate files present"""
    t = {"all_candidates": set(CANDIDATES)}
    for f in CANDIDATES:
        t["only:" + f] = {f}
    t["incn_and_incan"] = {"m.incn", "m.incan"}
    t["file_and_mod_dir"] = {"m.incn", "m/mod.incn"}
    t["incan_and_mod_dir"] = {"m.incan", "m/mod.incn"}
    t["d_incn_and_incan"] = {"d/m.incn", "d/m.incan"}
    t["none"] = set()
    return t


def write_tree(base, present, entry_rel, import_line, transitive=None):
    shutil.rmtree(base, ignore_errors=True)
    for f in present:
        p = os.path.join(base, f)
        os.makedirs(os.path.dirname(p), exist_ok=True)
        open(p, "w").write(module_text(CANDIDATES[f]))
    if transitive:
        # entry imports `mid`, and mid (placed in d/) contains the spelling under test
        mid = os.path.join(base, "d", "mid.incn")
        os.makedirs(os.path.dirname(mid), exist_ok=True)
        open(mid, "w").write(f"{import_line}\n\n\npub def marker_mid() -> int:\n    return 0\n")
        text = "from d.mid import marker_mid\n\n\ndef main() -> None:\n    pass\n"
    else:
        text = f"{import_line}\n\n\ndef main() -> None:\n    pass\n"
    e = os.path.join(base, entry_rel)
    os.makedirs(os.path.dirname(e), exist_ok=True)
    open(e, "w").write(text)
    return e


def resolution_cases(tier):
    T = trees()
    out = []
    tnames = list(T) if tier == "thorough" else ["all_candidates", "only:m.incan", "only:m/mod.incn", "only:d/m.incn", "only:d/m/mod.incn", "only:d/e/m.incn", "only:src/d/m.incn", "incn_and_incan", "file_and_mod_dir", "none"]
    for tn in tnames:
        for en, erel in ENTRIES.items():
            for sn, line in SPELLINGS.items():
                out.append({"tree": tn, "entry": en, "spelling": sn, "transitive": False})
        if tier == "thorough" or tn in ("all_candidates", "only:d/m.incn", "only:m.incn"):
            for sn, line in SPELLINGS.items():
                out.append({"tree": tn, "entry": "root", "spelling": sn, "transitive": True})
    return out


def marker_of_uri(uri, base):
    p = uri[len("file://"):]
    rel = os.path.relpath(p, base)
    if rel == os.path.join("d", "mid.incn"):
        return "marker_mid"
    return CANDIDATES.get(rel, "<" + rel + ">")


def run_resolution(out, tier):
    T = trees()
    cs = resolution_cases(tier)
    shutil.rmtree(ROOT, ignore_errors=True)
    reqs = []
    bases = {}
    for k, c in enumerate(cs):
        base = os.path.join(ROOT, f"p{k}")
        entry = write_tree(base, T[c["tree"]], ENTRIES[c["entry"]], SPELLINGS[c["spelling"]], c["transitive"])
        bases[k] = base
        reqs.append({"id": k, "entry": os.path.realpath(entry)})
    # sharded over processes
    n = common.NCPU
    chunks = [reqs[i::n] for i in range(n)]

    def work(chunk):
        if not chunk:
            return []
        p = subprocess.run([common.IVH, "resolve"], input="\n".join(json.dumps(r) for r in chunk) + "\n", capture_output=True, text=True, timeout=1200)
        if p.returncode != 0:
            raise common.MachineryError(f"ivh resolve failed: {p.stderr[-400:]}")
        return [json.loads(l) for l in p.stdout.splitlines() if l.startswith("{")]

    with ThreadPool(n) as pool:
        res = [r for rs in pool.map(work, chunks) for r in rs]
    agree = set()
    for r in res:
        k = r["id"]
        c = cs[k]
        base = os.path.realpath(bases[k])
        cli = r["cli"]
        lsp = r["lsp"]
        if not lsp.get("ok") or cli.get("panic"):
            out.fail("resolver-crashed", {**c, "cli": cli, "lsp": lsp})
            continue
        cli_set = sorted(m for m in cli.get("markers", []) if m != "marker_mid") if cli.get("ok") else ["<error: " + cli.get("error", "")[:80] + ">"]
        lsp_set = sorted(m for m in (marker_of_uri(u, base) for u in lsp["uris"]) if m != "marker_mid")
        if cli_set == lsp_set:
            agree.add((c["tree"], c["entry"], c["spelling"], c["transitive"], tuple(cli_set)))
        else:
            import hashlib

            obs = hashlib.sha1(json.dumps([cli_set, lsp_set]).encode()).hexdigest()[:8]
            key = f"resolution-differs|spelling:{c['spelling']}|entry:{c['entry']}{'+transitive' if c['transitive'] else ''}|tree:{c['tree']}|obs:{obs}"
            out.fail(key, {**c, "import": SPELLINGS[c["spelling"]], "files_present": sorted(T[c["tree"]]), "cli_loaded": cli_set, "language_server_loaded": lsp_set})
    shutil.rmtree(ROOT, ignore_errors=True)
    return len(cs), agree


# ---------------------------------------------------------------------------------------------------------------------
ITEMS = {
    "function": ("def item() -> int:\n    return 1\n", "println(item())"),
    "model": ("model Item:\n    v: int\n", "println(Item(v=1).v)"),
    "class": ("class Item:\n    v: int\n", "println(Item(v=1).v)"),
    "enum": ("enum Item:\n    A\n    B\n", "e = Item.A\nprintln(1)"),
    "newtype": ("type Item = newtype int\n", "println(Item(1).0)"),
    "const": ("const ITEM: int = 3\n", "println(ITEM)"),
    "trait": ("trait Item:\n    def f(self) -> int:\n        return 1\n", "class User with Item:\n    v: int"),
}
VIS_FORMS = {
    "from_import": ("from lib import {N}", "{USE}"),
    "from_import_alias": ("from lib import {N} as renamed", "{USE_RENAMED}"),
    "from_nested": ("from pkg.lib import {N}", "{USE}"),
    "import_item": ("import lib::{N}", "{USE}"),
    "import_item_alias": ("import lib::{N} as renamed", "{USE_RENAMED}"),
    "import_item_nested": ("import pkg::lib::{N}", "{USE}"),
}


def visibility_cases():
    out = []
    for kind, (decl, use) in ITEMS.items():
        name = "ITEM" if kind == "const" else ("item" if kind == "function" else "Item")
        for form, (imp, usetpl) in VIS_FORMS.items():
            if kind == "trait" and form in ("from_import_alias", "import_item_alias"):
                continue
            u = use
            if form in ("from_import_alias", "import_item_alias"):
                u = use.replace("Item", "renamed").replace("item(", "renamed(").replace("ITEM", "renamed")
            libpath = "pkg/lib.incn" if form in ("from_nested", "import_item_nested") else "lib.incn"
            if kind == "trait":
                main = imp.replace("{N}", name) + f"\n\n\n{u}\n\n\ndef main() -> None:\n    pass\n"
            else:
                main = imp.replace("{N}", name) + "\n\n\ndef main() -> None:\n" + "\n".join("    " + l for l in u.split("\n")) + "\n"
            out.append((kind, form, libpath, decl, main))
    return out


IMPORTERS = ("main", "dep_chain", "dep_diamond_mid_first", "dep_diamond_lib_first")
# names of the library module: plain, and names that begin with (but are not) a root the resolvers treat specially
MODULE_NAMES = ("lib", "stdio", "std_utils", "stdx", "crates", "superb", "rusty", "testing_tools", "webs", "mathx", "selfish")


def run_visibility(out):
    """collide: another loaded module (`other.incn`, imported for an unrelated name) declares a *pub* item of the same name
    as the private item of `lib` - the verdict about `lib`'s item must not depend on it.
    importer: the importing file is the entry file, or a dependency module `mid` (the entry imports `mid` only = chain;
    or `mid` and `lib` in either order = diamond)."""
    base = os.path.join(ROOT, "vis")
    n = 0
    ok = set()
    env = {"PATH": os.environ.get("PATH", ""), "RUST_LOG": "off"}
    jobs = []
    for kind, form, libpath, decl, main in visibility_cases():
        for collide in (False, True):
            for importer in IMPORTERS:
                if importer != "main" and (collide or form not in ("from_import", "import_item")):
                    continue
                jobs.append((kind, form, libpath, decl, main, collide, importer, "lib"))
        if form in ("from_import", "import_item", "from_nested"):
            for mod in MODULE_NAMES[1:]:
                jobs.append((kind, form, libpath, decl, main, False, "main", mod))

    def run_one(job):
        kind, form, libpath, decl, main, collide, importer, mod = job
        if mod != "lib":
            libpath = libpath.replace("lib.incn", mod + ".incn")
            main = main.replace("from lib import", f"from {mod} import").replace("from pkg.lib import", f"from pkg.{mod} import").replace("import lib::", f"import {mod}::")
        res = {}
        main_text = ("from other import unrelated\n" + main) if collide else main
        files_for = {}
        for vis in ("private", "pub"):
            d = os.path.join(base, f"{kind}_{form}_{vis}_{int(collide)}_{importer}_{mod}")
            shutil.rmtree(d, ignore_errors=True)
            os.makedirs(os.path.dirname(os.path.join(d, libpath)), exist_ok=True)
            text = ("pub " + decl if vis == "pub" else decl) + "\n\npub def other() -> int:\n    return 0\n"
            files = {libpath: text}
            if collide:
                files["other.incn"] = "pub " + decl + "\n\npub def unrelated() -> int:\n    return 0\n"
            if importer == "main":
                files["main.incn"] = main_text
            else:
                # the importing code moves into mid.incn: `def main()` becomes `pub def mid_entry()`
                files["mid.incn"] = main_text.replace("def main() -> None:", "pub def mid_entry() -> None:")
                lines = {"dep_chain": ["from mid import mid_entry"], "dep_diamond_mid_first": ["from mid import mid_entry", "from lib import other"], "dep_diamond_lib_first": ["from lib import other", "from mid import mid_entry"]}[importer]
                files["main.incn"] = "\n".join(lines) + "\n\n\ndef main() -> None:\n    mid_entry()\n"
            for rel, t in files.items():
                os.makedirs(os.path.dirname(os.path.join(d, rel)), exist_ok=True)
                open(os.path.join(d, rel), "w").write(t)
            p = subprocess.run([common.INCAN, "--no-banner", "--color", "never", "--check", "main.incn"], cwd=d, capture_output=True, text=True, timeout=60, env=env)
            res[vis] = (p.returncode, (p.stdout + p.stderr)[-400:])
            files_for[vis] = files
        return job[:7] + (mod,), res, files_for["private"]

    from multiprocessing.pool import ThreadPool

    with ThreadPool(common.NCPU) as pool:
        results = pool.map(run_one, jobs)
    for (kind, form, libpath, decl, main, collide, importer, mod), res, files in results:
        n += 2
        if res["pub"][0] != 0:
            continue  # the twin does not check on this tree: position unusable
        tag = f"kind:{kind}|form:{form}" + ("|same-name-pub-in-another-module" if collide else "") + (f"|importer:{importer}" if importer != "main" else "") + (f"|module-name:{mod}" if mod != "lib" else "")
        case = {"kind": kind, "form": form, "lib": decl, "main": files.get("main.incn"), "files": files, "other_module_declares_pub_item_of_same_name": collide, "importer": importer}
        if res["private"][0] == 0:
            out.fail(f"private-item-usable|{tag}", {**case, "check_output": res["private"][1]})
        elif res["private"][0] != 1:
            out.fail(f"check-abnormal-exit|{tag}", {**case, "exit": res["private"][0], "output": res["private"][1]})
        else:
            ok.add(("visibility", kind, form, collide, importer, mod))
    # private items named like builtins (the symbol table already holds a public definition of that name)
    for name, decl, use in [("len", "def len(x: int) -> int:\n    return x\n", "println(len(3))"), ("Option", "def Option(x: int) -> int:\n    return x\n", "println(Option(3))"),
                            ("print", "def print(x: int) -> int:\n    return x\n", "println(print(3))"), ("range", "def range(x: int) -> int:\n    return x\n", "println(range(3))")]:
        res = {}
        for vis in ("private", "pub"):
            d = os.path.join(base, f"builtin_{name}_{vis}")
            shutil.rmtree(d, ignore_errors=True)
            os.makedirs(d)
            open(os.path.join(d, "lib.incn"), "w").write(("pub " if vis == "pub" else "") + decl + "\n\npub def other() -> int:\n    return 0\n")
            main_text = f"from lib import {name}\n\n\ndef main() -> None:\n    {use}\n"
            open(os.path.join(d, "main.incn"), "w").write(main_text)
            p = subprocess.run([common.INCAN, "--no-banner", "--color", "never", "--check", "main.incn"], cwd=d, capture_output=True, text=True, timeout=60, env=env)
            res[vis] = (p.returncode, (p.stdout + p.stderr)[-400:])
            n += 1
        if res["pub"][0] != 0:
            continue
        if res["private"][0] == 0:
            out.fail(f"private-item-usable|kind:function-named-like-builtin:{name}|form:from_import", {"kind": "function", "form": "from_import", "lib": decl, "main": main_text, "check_output": res["private"][1]})
        elif res["private"][0] == 1:
            ok.add(("visibility", "builtin-name", name))
    shutil.rmtree(base, ignore_errors=True)
    return n, ok


def run_graphs(out, tier):
    """All import graphs on files a (entry), b, c: each file imports any subset of {a, b, c}."""
    names = ["a", "b", "c"]
    base = os.path.join(ROOT, "graphs")
    edges = [(x, y) for x in names for y in names]
    masks = range(1 << len(edges))
    if tier != "thorough":
        masks = [m for m in masks if m % 5 == 0 or bin(m).count("1") <= 2]
    jobs = []
    for m in masks:
        es = [edges[i] for i in range(len(edges)) if m >> i & 1]
        jobs.append((m, es))

    def work(job):
        m, es = job
        d = os.path.join(base, f"g{m}")
        shutil.rmtree(d, ignore_errors=True)
        os.makedirs(d)
        for nme in names:
            imps = "".join(f"from {y} import f_{y}\n" for (x, y) in es if x == nme)
            body = f"pub def f_{nme}() -> int:\n    return 1\n"
            extra = "\n\ndef main() -> None:\n    pass\n" if nme == "a" else ""
            open(os.path.join(d, f"{nme}.incn"), "w").write(imps + "\n\n" + body + extra)
        outs = []
        for cmd in (["--check", "a.incn"], ["--emit-rust", "a.incn"]):
            try:
                p = subprocess.run([common.INCAN, "--no-banner", "--color", "never"] + cmd, cwd=d, capture_output=True, text=True, timeout=30, env={"PATH": os.environ.get("PATH", ""), "RUST_LOG": "off"})
                outs.append((cmd[0], p.returncode, (p.stdout + p.stderr)[-300:]))
            except subprocess.TimeoutExpired:
                outs.append((cmd[0], "timeout", ""))
        shutil.rmtree(d, ignore_errors=True)
        return m, es, outs

    with ThreadPool(common.NCPU) as pool:
        res = pool.map(work, jobs)
    ok = set()
    for m, es, outs in res:
        for cmd, rc, text in outs:
            if rc == "timeout":
                out.fail(f"import-graph-hang|{cmd}", {"edges": es, "command": cmd})
            elif rc not in (0, 1):
                out.fail(f"import-graph-crash|{cmd}", {"edges": es, "command": cmd, "exit": rc, "output": text})
            else:
                ok.add(("graph", len(es), cmd))
    # missing modules: must be diagnosed
    miss = {"import_missing": "import nowhere", "from_missing": "from nowhere import thing", "from_nested_missing": "from pkg.nowhere import thing", "import_item_missing": "import nowhere::thing"}
    n_miss = 0
    for mk, line in miss.items():
        d = os.path.join(base, mk)
        shutil.rmtree(d, ignore_errors=True)
        os.makedirs(d)
        open(os.path.join(d, "main.incn"), "w").write(f"{line}\n\n\ndef main() -> None:\n    pass\n")
        p = subprocess.run([common.INCAN, "--no-banner", "--color", "never", "--check", "main.incn"], cwd=d, capture_output=True, text=True, timeout=30, env={"PATH": os.environ.get("PATH", ""), "RUST_LOG": "off"})
        n_miss += 1
        if p.returncode == 0:
            out.fail(f"missing-module-not-diagnosed|{mk}", {"import": line, "output": (p.stdout + p.stderr)[-300:]})
        elif p.returncode != 1:
            out.fail(f"missing-module-crash|{mk}", {"import": line, "exit": p.returncode})
        else:
            ok.add(("missing", mk))
    shutil.rmtree(base, ignore_errors=True)
    return len(jobs) * 2 + n_miss, ok


def run(tier):
    common.build(need_cli=True)
    out = common.Outcome("C14", tier)
    n1, agree = run_resolution(out, tier)
    n2, vis_ok = run_visibility(out)
    n3, g_ok = run_graphs(out, tier)
    cov = {
        "evaluations": n1 + n2 + n3,
        "distinct_nontrivial": len(agree) + len(vis_ok) + len(g_ok),
        "rule": "resolution: project trees (all 12 candidate files for module m; each candidate alone; extension / file-vs-directory conflicts; none) x importer location "
        "(root, d/, d/e/) x 16 import spellings (import / from, :: and . paths, .., super, crate, aliases, item imports), plus the same spellings inside a transitively imported "
        "module; visibility: 7 item kinds x 6 import forms with pub/non-pub twins through `incan --check`, each also with another loaded module declaring a pub item of the same name, plus private functions named like 4 builtins; the `from` / `import ::` forms also with the importing code in a dependency module (chain, and diamond in both import orders); graphs: import graphs on 3 files (quick: a fifth + all with <= 2 "
        "edges; thorough: all 512) through --check and --emit-rust, and 4 missing-module spellings; non-trivial = cases where CLI and language server agree / twins behave / graph terminated normally",
        "samples": [{"tree": "all_candidates", "entry": "in_d", "spelling": "from_parent_m"}, {"visibility": ["model", "from_import"]}, {"graph_edges": [["a", "b"], ["b", "a"]]}],
        "exhaustive": True,
        "resolution_cases": n1,
        "resolution_agreeing": len(agree),
        "visibility_runs": n2,
        "graph_runs": n3,
    }
    return out.finish(
        cov,
        assumptions=[
            "the CLI's choice is observed through cli::commands::collect_modules (the function `incan --check/build/run` call), the language server's through the URIs the real backend publishes for parsed dependencies",
            "agreement is what is asserted (which file *should* win is only documented for .incn over .incan)",
        ],
    )


def replay(path):
    common.build(need_cli=True)
    rec = json.load(open(path, encoding="utf-8"))
    c = rec["case"]
    print(json.dumps(c, indent=1)[:3000])
    if "spelling" in c:
        T = trees()
        base = os.path.join(ROOT, "replay")
        entry = write_tree(base, T[c["tree"]], ENTRIES[c["entry"]], SPELLINGS[c["spelling"]], c.get("transitive"))
        p = subprocess.run([common.IVH, "resolve"], input=json.dumps({"id": 0, "entry": os.path.realpath(entry)}) + "\n", capture_output=True, text=True)
        print(p.stdout)
        shutil.rmtree(base, ignore_errors=True)
    return 1
