"""Language-level binding for C05: every slice *shape* (presence/absence of start, end, step, incl. `[::k]`, `[a::k]`), indexing
and range written in Incan source and compiled by the real CLI must print what CPython prints."""
import itertools

from . import common, pipe, sem

VALS = [None, -6, -2, 0, 1, 3, 9]
STEPS = [None, 1, 2, -1, -3]


def txt(a, b, c):
    f = lambda v: "" if v is None else str(v)
    if c is None:
        return f"{f(a)}:{f(b)}"
    return f"{f(a)}:{f(b)}:{f(c)}"


def run(out, tier):
    common.build(need_cli=True)
    pipe.warm()
    lines = ['s = "héllo𝄞"', "xs = [10, 20, 30, 40, 50]"]
    n = 0
    for a, b in itertools.product(VALS, VALS):
        for c in STEPS:
            if tier != "thorough" and (a is not None and b is not None and c in (2, -3)) and (a + b) % 2:
                continue
            lines.append(f"println(s[{txt(a, b, c)}])")
            lines.append(f"println(len(xs[{txt(a, b, c)}]))")
            n += 2
    for i in (-6, -5, -1, 0, 2, 5):
        lines.append(f"println(s[{i}])")
        if -5 <= i < 5:
            lines.append(f"println(xs[{i}])")
        n += 2
    for (a, b, c) in ((0, 5, 1), (5, 0, -1), (0, 10, 3), (10, 0, -4), (3, 3, 1), (0, 5, -1), (-3, 3, 2), (7, -8, -5)):
        lines.append(f"mut acc{n} = 0\nfor i in range({a}, {b}, {c}):\n    acc{n} = acc{n} * 100 + i + 50\nprintln(acc{n})")
        n += 1
    for a in (0, 1, 5):
        lines.append(f"mut cnt{n} = 0\nfor i in range({a}):\n    cnt{n} += i + 1\nprintln(cnt{n})")
        n += 1
    u = sem.Unit("c05lang", "", "\n".join(lines))
    inc, py = sem.pack([u])
    py = py.replace("    s[-6]", "    _idx(s, -6)")
    # out-of-range indices are not part of this program (s has 6 scalars, xs 5 elements; indices stay in range)
    r = pipe.run_program(0, {"prog.incn": inc})
    rc, so, se = sem.run_python(py)
    if rc != 0:
        raise common.MachineryError("C05 language-level reference failed: " + se[-300:])
    if r.stage != "run" or r.exit != 0:
        out.fail("lang:program-did-not-run", {"kind": "lang", "stage": r.stage, "detail": r.detail, "stderr": r.stderr[-500:]})
        return {"language_level_observations": 0}
    got = sem.split_frames(r.stdout).get("c05lang", [])
    want = sem.split_frames(so).get("c05lang", [])
    bad = 0
    prints = [l for l in "\n".join(lines).split("\n") if l.startswith("println")]
    for k, (g, w) in enumerate(zip(got, want)):
        if g != w:
            bad += 1
            if bad <= 5:
                out.fail("lang:" + (prints[k][8:-1].split("[")[0] if k < len(prints) else "?") + "-slice-or-index", {"kind": "lang", "expr": prints[k] if k < len(prints) else "?", "printed": g, "reference": w})
    if len(got) != len(want):
        out.fail("lang:line-count", {"kind": "lang", "printed_lines": len(got), "reference_lines": len(want)})
    chained = run_chained(out)
    return {"language_level_observations": n, "language_level_mismatches": bad, **chained}


CHAIN_RECEIVERS = ["xs[1:]", "xs[::-1]", "xs[1:5]", "xs[:-1]", "xs[1:][::-1]", "xs[1:][0:]", "s[1:]", "s[::-1]", "s[1:][::-1]", "ws[1:]", "g[1:]"]


def run_chained(out):
    """An index applied directly to a slice expression (list of int / str / list, string; literal and run-time index,
    negative and non-negative, in range; and one past either end for the documented IndexError)."""
    lines = ['s = "héllo𝄞"', "xs = [10, 20, 30, 40, 50]", 'ws = ["a", "bb", "ccc", "dd", "e"]', "g = [[1], [2, 3], [4], [5, 6], [7]]", "ks = [-4, -1, 0, 2, 3]"]
    n = 0
    body = []
    for rcv in CHAIN_RECEIVERS:
        show = "println(len({}))" if rcv.startswith("g") else "println({})"
        body.append(show.format(f"{rcv}[k]"))
        for lit in (-4, -1, 0, 3):
            lines_lit = show.format(f"{rcv}[{lit}]")
            lines.append(lines_lit)
            n += 1
    lines.append("for k in ks:\n" + "\n".join("    " + b for b in body))
    n += len(body) * 5
    u = sem.Unit("c05chain", "", "\n".join(lines))
    inc, py = sem.pack([u])
    r = pipe.run_program(0, {"prog.incn": inc})
    rc, so, se = sem.run_python(py)
    if rc != 0:
        raise common.MachineryError("C05 chained reference failed: " + se[-300:])
    bad = 0
    if r.stage != "run" or r.exit != 0:
        out.fail("lang:chained-slice-index-program-did-not-run", {"kind": "lang", "program": inc, "stage": r.stage, "detail": r.detail, "exit": r.exit, "stderr": r.stderr[-500:], "stdout": r.stdout[-300:]})
        bad += 1
    else:
        got = sem.split_frames(r.stdout).get("c05chain", [])
        want = sem.split_frames(so).get("c05chain", [])
        if got != want:
            bad += 1
            k = next((i for i, (a, b) in enumerate(zip(got, want)) if a != b), min(len(got), len(want)))
            out.fail("lang:chained-slice-index-differs", {"kind": "lang", "program": inc, "first_difference_at_line": k, "printed": got[k : k + 3], "reference": want[k : k + 3]})
    # one past either end: IndexError, not a wrapped-around element and not a Rust bounds panic
    jobs = []
    for rcv in ("xs[1:]", "s[1:]", "xs[::-1]"):
        size = 4 if rcv == "xs[1:]" else 5
        for k in (size, -size - 1):
            src = f'def main() -> None:\n    s = "héllo𝄞"\n    xs = [10, 20, 30, 40, 50]\n    ks = [{k}]\n    for k in ks:\n        println("before")\n        println({rcv}[k])\n        println("after")\n'
            jobs.append(((rcv, k), {"prog.incn": src}))
    rr = pipe.run_many(jobs)
    for (rcv, k), files in jobs:
        r = rr[(rcv, k)]
        n += 1
        if r.stage != "run":
            out.fail("lang:chained-slice-index-program-did-not-run", {"kind": "lang", "program": files["prog.incn"], "stage": r.stage, "detail": r.detail, "stderr": r.stderr[-400:]})
            bad += 1
        elif r.exit == 0 or "after" in r.stdout or "IndexError" not in r.stderr:
            out.fail("lang:chained-slice-index-out-of-range-not-an-IndexError", {"kind": "lang", "program": files["prog.incn"], "exit": r.exit, "stdout": r.stdout, "stderr": r.stderr[-400:]})
            bad += 1
    return {"chained_slice_index_observations": n, "chained_slice_index_mismatches": bad}
