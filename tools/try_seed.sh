#!/bin/sh
# usage: try_seed.sh <patch.diff> <Cxx> [tier]   – apply a seeded change to /repo, run the check, undo the change.
# The working tree of /repo must be clean before and is clean afterwards.
set -u
patch=$1; pid=$2; tier=${3:-quick}
if [ -n "$(git -C /repo status --porcelain --untracked-files=no)" ]; then echo "/repo is dirty"; exit 3; fi
if ! git -C /repo apply --3way "$patch" 2>/tmp/apply.err; then cat /tmp/apply.err; git -C /repo checkout -- . ; git -C /repo reset -q; echo "PATCH DOES NOT APPLY"; exit 3; fi
git -C /repo reset -q
cd /verif && ./check "$pid" --tier "$tier"; rc=$?
git -C /repo checkout -- .
echo "check exit=$rc (1 = detected)"
exit $rc
