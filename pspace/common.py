"""Common machinery for every check: building against /repo's working tree, evidence, findings, violations, replays."""
import fcntl
import hashlib
import json
import os
import subprocess
import sys
import time

VERIF = os.path.dirname(os.path.dirname(os.path.abspath(__file__)))
REPO = "/repo"
BUILD = os.path.join(VERIF, ".build")
TARGET = os.path.join(BUILD, "target")
IVH = os.path.join(TARGET, "release", "ivh")
INCAN = os.path.join(TARGET, "release", "incan")
NCPU = min(16, os.cpu_count() or 4)

BUILD_ENV = {
    "CARGO_NET_OFFLINE": "true",
    "CARGO_TARGET_DIR": TARGET,
    "CARGO_PROFILE_RELEASE_OPT_LEVEL": "1",
    "CARGO_PROFILE_RELEASE_DEBUG_ASSERTIONS": "false",
    "CARGO_PROFILE_RELEASE_OVERFLOW_CHECKS": "false",
    "CARGO_PROFILE_RELEASE_DEBUG": "0",
    "CARGO_PROFILE_RELEASE_INCREMENTAL": "true",
    "CARGO_PROFILE_RELEASE_CODEGEN_UNITS": "64",
    "CARGO_TERM_COLOR": "never",
}


class MachineryError(Exception):
    """The machinery itself failed (exit 2) – never a verdict about the property."""


def log(*a):
    print(*a, file=sys.stderr, flush=True)


def _run_build(cwd, args, what):
    env = dict(os.environ)
    env.update(BUILD_ENV)
    # hooks guard (reserved; no hooks exist) – harmless cfg
    t0 = time.time()
    p = subprocess.run(["cargo"] + args, cwd=cwd, env=env, stdout=subprocess.PIPE, stderr=subprocess.STDOUT, text=True)
    if p.returncode != 0:
        log(p.stdout[-6000:])
        raise MachineryError(f"build of {what} failed (exit {p.returncode})")
    log(f"[build] {what}: ok in {time.time() - t0:.1f}s")


def build(need_cli=False):
    """(Re)build the harness – whose path dependencies are /repo's crates – and optionally /repo's own `incan` binary.

    Serialised with a file lock so that concurrently started checks do not fight over the target directory."""
    os.makedirs(BUILD, exist_ok=True)
    with open(os.path.join(BUILD, ".lock"), "w") as lk:
        fcntl.flock(lk, fcntl.LOCK_EX)
        lock = os.path.join(VERIF, "harness", "Cargo.lock")
        if not os.path.exists(lock):
            import shutil

            shutil.copy(os.path.join(REPO, "Cargo.lock"), lock)
        _run_build(os.path.join(VERIF, "harness"), ["build", "--release", "--offline"], "ivh harness (+/repo crates)")
        if need_cli:
            _run_build(REPO, ["build", "--release", "--offline", "--bin", "incan"], "/repo incan binary")
    return IVH


def repo_rev():
    try:
        head = subprocess.run(["git", "-C", REPO, "rev-parse", "HEAD"], capture_output=True, text=True).stdout.strip()
        dirty = subprocess.run(["git", "-C", REPO, "status", "--porcelain"], capture_output=True, text=True).stdout.strip()
        return head + ("+dirty" if dirty else "")
    except Exception:
        return "unknown"


# ---------------------------------------------------------------------------------------------------------------------
# Known findings
# ---------------------------------------------------------------------------------------------------------------------

FINDINGS_FILE = os.path.join(VERIF, "known_findings.txt")


def load_findings(pid):
    """Return {key: description} for `finding:` lines of this property. `fixed:` lines suppress nothing."""
    out = {}
    if not os.path.exists(FINDINGS_FILE):
        return out
    for line in open(FINDINGS_FILE, encoding="utf-8"):
        line = line.strip()
        if not line.startswith("finding:"):
            continue
        parts = line.split(None, 3)
        # finding: property=Cxx key=<key> <what fails>
        if len(parts) < 3 or parts[1] != f"property={pid}" or not parts[2].startswith("key="):
            continue
        out[parts[2][4:]] = parts[3] if len(parts) > 3 else ""
    return out


class Outcome:
    """Collects violations / known findings for one run of one check and turns them into the exit protocol."""

    def __init__(self, pid, tier):
        self.pid = pid
        self.tier = tier
        self.findings = load_findings(pid)
        self.known_seen = {}  # key -> [count, first witness]
        self.violations = []  # (key, case dict)
        self.t0 = time.time()
        # replay artefacts of earlier runs of this property are stale by definition
        import shutil

        shutil.rmtree(os.path.join(VERIF, "replays", pid), ignore_errors=True)

    def fail(self, key, case):
        """Record a failing case. `key` identifies the failure class narrowly; if it is listed as a known finding the
        case is attributed to it, otherwise it is a violation."""
        if key in self.findings:
            e = self.known_seen.setdefault(key, [0, case])
            e[0] += 1
        else:
            self.violations.append((key, case))

    def finish(self, coverage, level="exploration", assumptions=None, max_report=25):
        os.makedirs(os.path.join(VERIF, "evidence"), exist_ok=True)
        if os.environ.get("VERIF_DUMP_FAILS"):  # development aid: dump every failing (key, case) pair
            with open(os.environ["VERIF_DUMP_FAILS"], "w", encoding="utf-8") as f:
                for key, case in self.violations:
                    f.write(json.dumps({"key": key, "case": case}, ensure_ascii=False) + "\n")
        rdir = os.path.join(VERIF, "replays", self.pid)
        lines = []
        seen_keys = {}
        for key, case in self.violations:
            seen_keys.setdefault(key, []).append(case)
        n = 0
        for key, cases in seen_keys.items():
            for case in cases[:3]:  # at most 3 replays per failure class
                if n >= max_report:
                    break
                os.makedirs(rdir, exist_ok=True)
                blob = json.dumps({"property": self.pid, "key": key, "case": case}, indent=1, ensure_ascii=False, sort_keys=True)
                h = hashlib.sha1(blob.encode()).hexdigest()[:12]
                path = os.path.join(rdir, f"{h}.json")
                with open(path, "w", encoding="utf-8") as f:
                    f.write(blob + "\n")
                lines.append(f"VIOLATION property={self.pid} replay={path}")
                log(f"  violation class {key!r}: {json.dumps(case, ensure_ascii=False)[:400]}")
                n += 1
        for key, (cnt, wit) in sorted(self.known_seen.items()):
            print(f"KNOWN-FINDING: property={self.pid} {key} {self.findings[key]} ({cnt} enumerated cases)", flush=True)
        for key in sorted(set(self.findings) - set(self.known_seen)):
            log(f"STALE-FINDING: property={self.pid} {key} was not observed in this run (tier {self.tier})")
        cov = dict(coverage)
        cov["known_findings_seen"] = {k: v[0] for k, v in self.known_seen.items()}
        cov["violation_classes"] = {k: len(v) for k, v in seen_keys.items()}
        ev = {
            "property_id": self.pid,
            "tier": self.tier,
            "seed": int(os.environ.get("VERIF_SEED", "0") or 0),
            "level": level,
            "coverage": cov,
            "assumptions": assumptions or [],
            "wall_s": round(time.time() - self.t0, 2),
            "violations": len(self.violations),
            "repo_rev": repo_rev(),
        }
        with open(os.path.join(VERIF, "evidence", f"{self.pid}.json"), "w", encoding="utf-8") as f:
            json.dump(ev, f, indent=1, ensure_ascii=False)
            f.write("\n")
        for l in lines:
            print(l, flush=True)
        log(
            f"[{self.pid}/{self.tier}] evaluations={cov.get('evaluations')} distinct_nontrivial={cov.get('distinct_nontrivial')} "
            f"violations={len(self.violations)} known={sum(v[0] for v in self.known_seen.values())} wall={ev['wall_s']}s"
        )
        return 1 if self.violations else 0


def pick_samples(items, k=3):
    """first / middle / last of a list."""
    items = list(items)
    if len(items) <= k:
        return items
    return [items[0], items[len(items) // 2], items[-1]]
