"""C13 – any legal Incan name is safe to use.

One base program uses every binding position (const, trait, trait method, enum, variants, newtype, model, fields, methods,
class, functions, parameters, locals, `mut` locals, loop / comprehension / closure / match bindings). Each position is
renamed consistently to every name of the alphabet: every Rust strict / reserved / 2018+ keyword that the real Incan lexer
accepts as an identifier, names the generated code relies on (prelude types, helper modules, generated temporaries,
derive/trait method names), and capitalisation-crossing names. Oracle: the renamed program's check verdict, build result and
stdout equal the base program's.
"""
import json
import os
import re

from . import common, pipe, serve

BASE = open(os.path.join(os.path.dirname(__file__), "c13_base.incn"), encoding="utf-8").read()

# position -> (identifier in the base program, "value" | "type")
MODLIB = "pub def item_fn() -> int:\n    return 7\n\n\npub def other_fn() -> int:\n    return 8\n"
POSITIONS = {
    "const": ("LIMIT", "type"),
    "trait": ("Shower", "type"),
    "trait_method": ("show", "value"),
    "enum": ("Kind", "type"),
    "variant_data": ("Small", "type"),
    "variant_unit": ("Big", "type"),
    "newtype": ("Wrapped", "type"),
    "model": ("Item", "type"),
    "field": ("weight", "value"),
    "field_default": ("count", "value"),
    "method": ("total", "value"),
    "class": ("Tank", "type"),
    "class_constructed_before_declaration": ("Bin", "type"),
    "class_field": ("level", "value"),
    "class_field_default": ("spare", "value"),
    "mut_method": ("fill", "value"),
    "method_param": ("amount", "value"),
    "function": ("classify", "value"),
    "function2": ("compute", "value"),
    "param": ("param", "value"),
    "param2": ("value", "value"),
    "param_enum": ("kind", "value"),
    "local": ("local", "value"),
    "mut_local": ("acc", "value"),
    "loop_var": ("loopv", "value"),
    "comp_var": ("elem", "value"),
    "list_local": ("squares", "value"),
    "closure_name": ("adder", "value"),
    "closure_param": ("cp", "value"),
    "annotated_local": ("opt", "value"),
    "match_binding": ("inner", "value"),
    "match_binding_some": ("bound", "value"),
    "main_local": ("item", "value"),
    "loop_var_mutated_through": ("member", "value"),
    "mut_list_local": ("fleet", "value"),
    "mut_param_mutated": ("target", "value"),
    "eq_method_param": ("peer", "value"),
    "main_mut_local": ("tank", "value"),
    "function_with_mut_param": ("refill", "value"),
    "function_called_with_named_args_out_of_order": ("span", "value"),
}

RUST_KEYWORDS = (
    "as break const continue crate else enum extern false fn for if impl in let loop match mod move mut pub ref return self Self static struct super trait "
    "true type unsafe use where while async await dyn abstract become box do final macro override priv typeof unsized virtual yield try gen union macro_rules raw auto"
).split()
GENERATED = (
    "__parts __args tmp String Vec HashMap HashSet Option Some None Ok Err Box std core incan_stdlib prelude format vec main new clone to_string message from_json "
    "to_json len print println i64 f64 str int float bool list dict set result value_ self_ _x x1 __ fmt Display Debug default Default hash eq cmp partial_cmp drop "
    "into from iter next unwrap expect get insert push map filter collect string num strings collections"
).split()
TYPE_NAMES = "Box Vec String Option Result HashMap HashSet Some Ok Err None Type Struct Trait Iterator Default Clone Debug Display Error Self Copy Send Sync Sized Fn Drop Eq Ord Hash FromJson ToJson Main point lower_name X T".split()


def rename(src, ident, new):
    return re.sub(r"(?<![A-Za-z0-9_])" + re.escape(ident) + r"(?![A-Za-z0-9_])", new, src)


def legal_names(names):
    """Names the real lexer/parser accept as an identifier (binding position)."""
    reqs = [{"id": n, "op": "front", "src": f"def f() -> None:\n    {n} = 1\n", "emit": False} for n in names]
    res = serve.run_requests(reqs)
    return [n for n in names if res[n]["parse"]["status"] == "ok"]


def predefined(names):
    """Names that Incan itself defines (builtins, surface constructors, builtin types): renaming to them would clash."""
    reqs = [{"id": n, "op": "front", "src": f"def f() -> None:\n    zz = {n}\n", "emit": False} for n in names]
    res = serve.run_requests(reqs)
    out = set()
    for n in names:
        r = res[n]
        if r["parse"]["status"] != "ok":
            continue
        errs = r["check"]["errs"]
        if not any("Unknown symbol" in m for m, _, _ in errs):
            out.add(n)
    return out


def run(tier):
    common.build(need_cli=True)
    pipe.warm()
    out = common.Outcome("C13", tier)
    base_r = pipe.run_program(0, {"prog.incn": BASE})
    if not (base_r.stage == "run" and base_r.exit == 0):
        raise common.MachineryError(f"base program does not build/run: {base_r.stage} {base_r.detail} {base_r.stderr[-400:]}")
    base_out = base_r.stdout
    used = set(re.findall(r"[A-Za-z_][A-Za-z0-9_]*", BASE))
    names = [n for n in dict.fromkeys(RUST_KEYWORDS + GENERATED + TYPE_NAMES) if n not in used]
    legal = set(legal_names(names)) - predefined(names) - {"Self", "self"}
    kw_legal = [n for n in RUST_KEYWORDS if n in legal]
    cases = []
    plist = list(POSITIONS.items())
    if tier == "thorough":
        for pos, (ident, kind) in plist:
            if kind == "value":
                cand = [n for n in RUST_KEYWORDS + GENERATED if n in legal] + ["Value", "Local"]
            else:
                cand = [n for n in TYPE_NAMES if n in legal] + [n.capitalize() for n in kw_legal]
                if pos in ("model", "class", "class_constructed_before_declaration", "enum", "newtype"):
                    cand += kw_legal  # a type may be named in lower case, hence also like a Rust keyword
            for n in dict.fromkeys(cand):
                if n not in used:
                    cases.append((pos, n, rename(BASE, ident, n)))
    else:
        # quick: every name appears in a rotating subset of positions (each keyword in 3 value positions, each other
        # name in 2), so every name and every position is exercised, simplest assignment first
        vpos = [(p, i) for p, (i, k) in plist if k == "value"]
        tpos = [(p, i) for p, (i, k) in plist if k == "type"]
        vnames = [n for n in RUST_KEYWORDS if n in legal] + [n for n in GENERATED if n in legal] + ["Value"]
        for k, n in enumerate(vnames):
            reps = 3 if n in kw_legal else 2
            for j in range(reps):
                p, i = vpos[(k * 5 + j * 7) % len(vpos)]
                if n not in used:
                    cases.append((p, n, rename(BASE, i, n)))
        # the call-shape positions (the emitted call depends on the callee's signature): 4 rotating keywords each
        for k, n in enumerate(kw_legal):
            for j, (p, i) in enumerate((("function_with_mut_param", "refill"), ("function_called_with_named_args_out_of_order", "span"))):
                if k % 9 == (2 + 4 * j) % 9 and n not in used:
                    cases.append((p, n, rename(BASE, i, n)))
        tnames = [n for n in TYPE_NAMES if n in legal] + [n.capitalize() for n in kw_legal[:10]]
        for k, n in enumerate(tnames):
            for j in range(2):
                p, i = tpos[(k * 3 + j * 4) % len(tpos)]
                if n not in used:
                    cases.append((p, n, rename(BASE, i, n)))
        # lower-case keyword names for types: every keyword as the name of one of the model / class positions (rotating)
        tp = [("model", "Item"), ("class", "Tank"), ("class_constructed_before_declaration", "Bin")]
        for k, n in enumerate(kw_legal):
            p_, i_ = tp[k % len(tp)]
            if n not in used:
                cases.append((p_, n, rename(BASE, i_, n)))
        # lower-case type names matter where constructor detection falls back on capitalisation
        for n in ("point", "lower_name"):
            if n in legal and n not in used:
                cases.append(("class_constructed_before_declaration", n, rename(BASE, "Bin", n)))
                cases.append(("model", n, rename(BASE, "Item", n)))
        cases = list({(p, n): (p, n, s) for p, n, s in cases}.values())
    # pairs of positions (thorough): two different positions renamed to two different keywords
    if tier == "thorough":
        plist = list(POSITIONS.items())
        for i, (p1, (id1, k1)) in enumerate(plist):
            for p2, (id2, k2) in plist[i + 1 :: 3]:
                if k1 == "value" and k2 == "value" and len(kw_legal) >= 2:
                    n1, n2 = kw_legal[(i * 7) % len(kw_legal)], kw_legal[(i * 7 + 3) % len(kw_legal)]
                    if n1 != n2:
                        cases.append((f"{p1}+{p2}", f"{n1}+{n2}", rename(rename(BASE, id1, n1), id2, n2)))
    # checker verdicts in-process
    reqs = [{"id": i, "op": "front", "src": src, "emit": False} for i, (pos, n, src) in enumerate(cases)]
    fr = serve.run_requests(reqs)
    build = []
    by_key = {}
    n_ok = 0

    def fail(pos, n, kind, case):
        by_key.setdefault(f"pos:{pos}|name:{n}|{kind}", []).append(case)

    for i, (pos, n, src) in enumerate(cases):
        r = fr[i]
        if r.get("crashed"):
            fail(pos, n, "front-end-crashed", {"position": pos, "name": n, "program": src})
        elif r["parse"]["status"] != "ok" or r["lex"]["status"] != "ok":
            continue  # the name is not legal in this position
        elif r["check"]["status"] != "ok":
            fail(pos, n, "rejected-by-checker", {"position": pos, "name": n, "program": src, "errors": r["check"]["errs"][:2]})
        else:
            build.append((i, pos, n, src))
    res = pipe.run_many([(i, {"prog.incn": src}) for i, pos, n, src in build])
    for i, pos, n, src in build:
        r = res[i]
        if r.stage != "run":
            kind = r.stage + ":" + re.sub(r"[^A-Za-z0-9_:,]+", "_", (r.detail or ""))[:50]
            fail(pos, n, kind, {"position": pos, "name": n, "program": src, "detail": r.detail, "stderr": r.stderr[-800:]})
        elif r.exit != 0 or r.stdout != base_out:
            fail(pos, n, "behaviour-differs", {"position": pos, "name": n, "program": src, "stdout": r.stdout, "expected": base_out, "exit": r.exit})
        else:
            n_ok += 1
    # ---- module names: a module file / directory may be named by any legal identifier too -------------------------------------
    LAYOUTS = {
        "module_file": lambda n: ({"prog.incn": f"from {n} import item_fn\nimport {n}::other_fn\n\n\ndef main() -> None:\n    println(item_fn())\n    println(other_fn())\n", f"{n}.incn": MODLIB}),
        "nested_module_file": lambda n: ({"prog.incn": f"from pkg.{n} import item_fn, other_fn\n\n\ndef main() -> None:\n    println(item_fn())\n    println(other_fn())\n", f"pkg/{n}.incn": MODLIB}),
        "module_directory": lambda n: ({"prog.incn": f"from {n}.inner import item_fn, other_fn\n\n\ndef main() -> None:\n    println(item_fn())\n    println(other_fn())\n", f"{n}/inner.incn": MODLIB}),
    }
    # `std` is Incan's own library namespace (never resolved on disk): not a legal user module name
    mod_names = [n for n in RUST_KEYWORDS + GENERATED if n in legal and n == n.lower() and n != "std"] + ["helper_mod"]
    if tier != "thorough":
        mod_names = [n for k, n in enumerate(mod_names) if k % 3 == 0 or n == "helper_mod"]
    mjobs = []
    for lay, mk in LAYOUTS.items():
        for n in mod_names:
            mjobs.append((lay, n, mk(n)))
    mres = pipe.run_many([(k, files) for k, (lay, n, files) in enumerate(mjobs)])
    base_ok = {lay: any(n == "helper_mod" and mres[k].stage == "run" and mres[k].stdout == "7\n8\n" for k, (l2, n, f) in enumerate(mjobs) if l2 == lay) for lay in LAYOUTS}
    n_mod_ok = 0
    for k, (lay, n, files) in enumerate(mjobs):
        if not base_ok[lay] or n == "helper_mod":
            continue  # the layout does not work with an ordinary name on this tree: position unusable
        r = mres[k]
        prog = "\n".join(f"# --- {p_}\n{t}" for p_, t in files.items())
        if r.stage == "check" and "syntax error" in (r.detail or "") + r.stderr:
            continue  # not a legal module name (Incan's own path keywords)
        if r.stage != "run":
            kind = r.stage + ":" + re.sub(r"[^A-Za-z0-9_:,]+", "_", (r.detail or ""))[:50]
            fail(lay, n, kind, {"position": lay, "name": n, "program": prog, "files": files, "detail": r.detail, "stderr": r.stderr[-800:]})
        elif r.exit != 0 or r.stdout != "7\n8\n":
            fail(lay, n, "behaviour-differs", {"position": lay, "name": n, "program": prog, "files": files, "stdout": r.stdout, "expected": "7\n8\n", "exit": r.exit})
        else:
            n_mod_ok += 1
    n_ok += n_mod_ok
    for key, cs in by_key.items():
        for c in cs[:1]:
            out.fail(key, c)
    cov = {
        "evaluations": len(cases) + len(mjobs),
        "distinct_nontrivial": n_ok,
        "module_name_cases": len(mjobs),
        "module_name_cases_ok": n_mod_ok,
        "module_layouts_usable": base_ok,
        "rule": f"{len(POSITIONS)} binding positions of one base program x names: {len(kw_legal)} Rust keywords that the real lexer accepts as identifiers "
        f"({' '.join(kw_legal)}), names used by generated code / prelude / derive methods, type-like and capitalisation-crossing names (quick: every keyword in 3 rotating positions, every other name in 2; "
        "thorough: every name in every position, plus pairs of positions); the same lower-case names as the name of a module file, of a nested module file and of a module directory of a multi-file project (quick: every third name); non-trivial = renamed programs that were accepted, built, ran and printed exactly the base output",
        "samples": [{"position": p, "name": n} for p, n, _ in common.pick_samples(cases)],
        "exhaustive": True,
        "positions": len(POSITIONS),
        "names_legal": len(legal),
        "renamings_built": len(build),
        "renamings_identical_behaviour": n_ok,
        "failing_by_class": {k: len(v) for k, v in by_key.items()},
    }
    pipe.prune_targets()
    return out.finish(
        cov,
        assumptions=[
            "a name is legal if the real lexer/parser accepts it as a binding target; names the parser rejects in a given position are skipped",
            "names that Incan itself predefines (builtins such as print/len/set, surface constructors Ok/Err/Some/None, Self) clash by definition and are excluded",
            "renaming is consistent textual replacement of one identifier of the base program (names already used by the base are excluded, so renamings never clash)",
        ],
    )


def replay(path):
    common.build(need_cli=True)
    rec = json.load(open(path, encoding="utf-8"))
    c = rec["case"]
    if "files" in c:
        r = pipe.run_program(0, c["files"])
        print("position", c["position"], "name", c["name"], "->", r.stage, r.detail, r.exit)
        print(r.stdout)
        print(r.stderr[-600:])
        return 0 if (r.stage == "run" and r.exit == 0 and r.stdout == "7\n8\n") else 1
    b = pipe.run_program(0, {"prog.incn": BASE})
    r = pipe.run_program(0, {"prog.incn": c["program"]})
    print("position", c["position"], "name", c["name"])
    print("renamed:", r.stage, r.detail, r.exit)
    print(r.stderr[-600:])
    same = r.stage == "run" and r.exit == 0 and r.stdout == b.stdout
    print("same behaviour as base:", same)
    return 0 if same else 1
