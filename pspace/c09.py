"""C09 – formatting is idempotent and consistent with --check.

Same program space as C08 (cases whose first format re-parses): fmt(fmt(x)) == fmt(x) byte for byte, the output ends in
exactly one newline, and outside string-like tokens (decided by re-lexing the output) contains no tab and no trailing
whitespace. CLI part: the real `incan fmt`, `fmt --check`, `fmt --diff` on a scratch tree of the cases.
"""
import hashlib
import os
import shutil
import subprocess

from . import c08, common, fmtspace


def cli_part(out, cases, results):
    common.build(need_cli=True)
    d = os.path.join(common.BUILD, "c09_tree")
    shutil.rmtree(d, ignore_errors=True)
    os.makedirs(os.path.join(d, "sub"))
    chosen = [(c, r) for c, r in zip(cases, results) if r.get("parses") and r.get("fmt") == "ok" and r.get("reparses") and len(c.sig) == 1]
    chosen = chosen[:400]
    paths = []
    for i, (c, r) in enumerate(chosen):
        p = os.path.join(d, "sub" if i % 2 else "", f"c{i:04d}.incn")
        with open(p, "w", encoding="utf-8") as f:
            f.write(c.src)
        paths.append(p)

    def hashes():
        return {p: hashlib.sha1(open(p, "rb").read()).hexdigest() for p in paths}

    def run(*args):
        return subprocess.run([common.INCAN, "--no-banner", "--color", "never", "fmt"] + list(args), capture_output=True, text=True)

    h0 = hashes()
    unformatted = [p for (c, r), p in zip(chosen, paths) if r.get("out") != c.src]
    # --check / --diff on the unformatted tree: must not modify anything, must exit non-zero if something needs formatting
    for flags in (("--check",), ("--diff",), ("--check", "--diff"), ("--diff", "--check")):
        flag = "+".join(flags)
        r = run(*flags, d)
        if hashes() != h0:
            out.fail(f"cli:{flag}-modified-files", {"sig": ["cli"], "kind": f"{flag} modified files", "src": "", "out": r.stdout[-300:]})
        if unformatted and r.returncode == 0:
            out.fail(f"cli:{flag}-exit0-on-unformatted", {"sig": ["cli"], "kind": f"{flag} exit 0 although {len(unformatted)} files need formatting", "src": "", "out": r.stdout[-300:]})
    r = run(d)
    if r.returncode != 0:
        out.fail("cli:fmt-failed", {"sig": ["cli"], "kind": f"incan fmt exit {r.returncode}", "src": "", "out": (r.stdout + r.stderr)[-400:]})
    h1 = hashes()
    # written content must be what format_source returned in-process (binds the in-process sweep to the CLI)
    mism = [p for (c, rr), p in zip(chosen, paths) if open(p, encoding="utf-8").read() != rr.get("out")]
    if mism:
        out.fail("cli:fmt-differs-from-library", {"sig": ["cli"], "kind": "incan fmt wrote different text than format_source", "src": open(mism[0], encoding="utf-8").read(), "out": ""})
    r = run("--check", d)
    if r.returncode != 0:
        bad = [l for l in r.stdout.splitlines() if l.startswith("Would reformat")]
        for l in bad[:3]:
            p = l.split(": ", 1)[1]
            idx = paths.index(p) if p in paths else None
            sig = list(chosen[idx][0].sig) if idx is not None else ["?"]
            out.fail(f"cli:check-fails-after-fmt@{sig[0]}", {"sig": sig, "kind": "fmt --check exits non-zero right after fmt", "src": open(p, encoding="utf-8").read(), "out": l})
        if not bad:
            out.fail("cli:check-fails-after-fmt", {"sig": ["cli"], "kind": f"fmt --check exit {r.returncode} right after fmt", "src": "", "out": (r.stdout + r.stderr)[-300:]})
    for flags in (("--diff",), ("--check", "--diff")):
        r = run(*flags, d)
        if hashes() != h1:
            out.fail("cli:" + "+".join(flags) + "-modified-formatted-files", {"sig": ["cli"], "kind": "+".join(flags) + " modified files", "src": "", "out": ""})
        if r.returncode != 0:
            out.fail("cli:" + "+".join(flags) + "-nonzero-after-fmt", {"sig": ["cli"], "kind": "+".join(flags) + f" exit {r.returncode} right after fmt", "src": "", "out": (r.stdout + r.stderr)[-300:]})
    shutil.rmtree(d, ignore_errors=True)
    return {"cli_files": len(paths), "cli_unformatted_before": len(unformatted)}


def run(tier):
    return c08.run(tier, pid="C09", classify=fmtspace.classify_c09, extra=cli_part)


def replay(path):
    return c08.replay(path, classify=fmtspace.classify_c09)
