"""pipe – run programs through the REAL CLI (`incan build`), cargo and the produced binary, 16 workers in parallel.

Each worker owns a warm CARGO_TARGET_DIR under .build/w<i>; every program is written as prog.incn so that the
package name (and therefore cargo's incremental state) is stable per worker.
"""
import os
import shutil
import subprocess
import threading
import queue

from . import common

ENV_BASE = {
    "PATH": os.environ.get("PATH", "/usr/bin:/bin"),
    "HOME": os.environ.get("HOME", "/root"),
    "CARGO_NET_OFFLINE": "true",
    "CARGO_TERM_COLOR": "never",
    "RUSTUP_TOOLCHAIN": os.environ.get("RUSTUP_TOOLCHAIN", ""),
    "LANG": "C.UTF-8",
    "NO_COLOR": "1",
}
for k in ("CARGO_HOME", "RUSTUP_HOME"):
    if k in os.environ:
        ENV_BASE[k] = os.environ[k]
if not ENV_BASE["RUSTUP_TOOLCHAIN"]:
    del ENV_BASE["RUSTUP_TOOLCHAIN"]


class Result:
    __slots__ = ("stage", "ok", "stdout", "stderr", "exit", "detail", "files")

    def __init__(self):
        self.stage = None  # "check" | "codegen" | "rustc" | "run"
        self.ok = False
        self.stdout = ""
        self.stderr = ""
        self.exit = None
        self.detail = ""
        self.files = {}


def worker_dir(i):
    d = os.path.join(common.BUILD, f"w{i}")
    os.makedirs(d, exist_ok=True)
    return d


def classify_build_failure(text):
    """Outcome kind of a failed `incan build`: check (diagnostics), codegen (lowering/emission), rustc (error codes)."""
    import re

    if "Code generation error" in text:
        m = re.search(r"Code generation error: (.*)", text)
        msg = m.group(1) if m else ""
        kind = "lowering" if "lowering" in msg else ("emission" if "emission" in msg or "syn parse" in msg or "unsupported" in msg else "codegen")
        return "codegen", f"{kind}: {msg[:160]}"
    if "Build failed" in text:
        codes = sorted(set(re.findall(r"error\[(E\d+)\]", text)))
        first = re.search(r"error(\[E\d+\])?: (.*)", text)
        return "rustc", (",".join(codes) or "error") + ": " + (first.group(2)[:160] if first else "")
    return "check", text.strip().splitlines()[0][:200] if text.strip() else "?"


def run_program(i, files, run=True, timeout=60, stdin_text=None, main="prog.incn", want_files=False, extra_env=None):
    """files: {relative path: text}; main file is compiled with `incan build`. Returns Result.

    The worker directory is protected by an exclusive file lock, so two checks started at the same time share the warm
    target directories without interfering."""
    import fcntl

    wd = worker_dir(i)
    with open(os.path.join(wd, ".lock"), "w") as lk:
        fcntl.flock(lk, fcntl.LOCK_EX)
        return _run_program(i, files, run, timeout, stdin_text, main, want_files, extra_env)


def _run_program(i, files, run, timeout, stdin_text, main, want_files, extra_env=None):
    wd = worker_dir(i)
    src = os.path.join(wd, "src")
    out = os.path.join(wd, "out")
    shutil.rmtree(src, ignore_errors=True)
    shutil.rmtree(out, ignore_errors=True)
    os.makedirs(src)
    for rel, text in files.items():
        p = os.path.join(src, rel)
        os.makedirs(os.path.dirname(p), exist_ok=True)
        with open(p, "w", encoding="utf-8") as f:
            f.write(text)
    env = dict(ENV_BASE)
    env["CARGO_TARGET_DIR"] = os.path.join(wd, "target")
    if extra_env:
        env.update(extra_env)
    r = Result()
    try:
        p = subprocess.run(
            [common.INCAN, "--no-banner", "--color", "never", "build", os.path.join(src, main), out], cwd=src, env=env, capture_output=True, text=True, timeout=600
        )
    except subprocess.TimeoutExpired:
        r.stage, r.detail = "build", "timeout"
        return r
    text = p.stdout + "\n" + p.stderr
    if want_files and os.path.isdir(out):
        for root, _, fs in os.walk(out):
            for f in fs:
                if f.endswith((".rs", ".toml")):
                    fp = os.path.join(root, f)
                    r.files[os.path.relpath(fp, out)] = open(fp, encoding="utf-8").read()
    if p.returncode != 0:
        r.stage, r.detail = classify_build_failure(text)
        r.stderr = text[-3000:]
        r.exit = p.returncode
        return r
    if not run:
        r.stage, r.ok = "build", True
        return r
    stem = os.path.splitext(os.path.basename(main))[0]
    binary = os.path.join(env["CARGO_TARGET_DIR"], "release", stem)
    try:
        q = subprocess.run([binary], cwd=src, env={"PATH": ENV_BASE["PATH"]}, capture_output=True, timeout=timeout, input=(stdin_text or "").encode())
    except subprocess.TimeoutExpired:
        r.stage, r.detail = "run", "timeout"
        return r
    r.stage = "run"
    r.ok = True
    r.exit = q.returncode
    r.stdout = q.stdout.decode("utf-8", "replace")
    r.stderr = q.stderr.decode("utf-8", "replace")
    return r


def run_many(jobs, fn=None, n=None):
    """jobs: list of (key, files[, kwargs]). Returns {key: Result}. Work-stealing over n worker slots."""
    n = n or common.NCPU
    qu = queue.Queue()
    for j in jobs:
        qu.put(j)
    res = {}
    lock = threading.Lock()

    def work(i):
        while True:
            try:
                j = qu.get_nowait()
            except queue.Empty:
                return
            key, files = j[0], j[1]
            kw = j[2] if len(j) > 2 else {}
            r = run_program(i, files, **kw)
            with lock:
                res[key] = r

    ts = [threading.Thread(target=work, args=(i,)) for i in range(min(n, max(1, len(jobs))))]
    for t in ts:
        t.start()
    for t in ts:
        t.join()
    return res


def prune_targets(limit_gb=12):
    """Keep the per-worker target directories below a total size cap."""
    total = 0
    for i in range(64):
        d = os.path.join(common.BUILD, f"w{i}", "target")
        if os.path.isdir(d):
            for root, _, fs in os.walk(d):
                for f in fs:
                    try:
                        total += os.path.getsize(os.path.join(root, f))
                    except OSError:
                        pass
    if total > limit_gb * (1 << 30):
        for i in range(64):
            shutil.rmtree(os.path.join(common.BUILD, f"w{i}", "target"), ignore_errors=True)


def warm(n=None):
    """Compile one trivial program per worker so that incan_stdlib etc. are built (setup)."""
    n = n or common.NCPU
    jobs = [(i, {"prog.incn": 'def main() -> None:\n    println("warm")\n'}) for i in range(n)]
    # pin job i to worker i
    res = {}
    ts = []

    def one(i):
        res[i] = run_program(i, jobs[i][1])

    for i in range(n):
        t = threading.Thread(target=one, args=(i,))
        t.start()
        ts.append(t)
    for t in ts:
        t.join()
    bad = [i for i, r in res.items() if not (r.ok and r.stdout.strip() == "warm")]
    if bad:
        raise common.MachineryError(f"pipe warm-up failed on workers {bad}: {res[bad[0]].stage} {res[bad[0]].detail} {res[bad[0]].stderr[-400:]}")
    return True
