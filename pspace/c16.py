"""C16 – `incan test` reports the truth.

Test files made of every (body kind x marker) function, run through the REAL `incan test` (and real `cargo test`) under
every flag set of the alphabet; verdict lines, summary counts, exit status and the set of tests that were actually executed
are compared with a reference model of the documented runner.
"""
import itertools
import json
import os
import re
import shutil
import subprocess
from multiprocessing.pool import ThreadPool

from . import common, pipe

BODIES = {
    "pass": ("    assert_eq(1 + 1, 2)\n", True),
    "fail_eq": ("    assert_eq(1 + 1, 3)\n", False),
    "fail_assert": ("    assert(1 > 2)\n", False),
    "fail_call": ('    fail("explicit failure")\n', False),
    "panic_index": ("    xs = [1, 2, 3]\n    println(xs[7])\n", False),
    "pass_with_output": ('    println("some output")\n    assert_true(True)\n', True),
    # tests written in the "return a Result and use ?" style (return type Result[None, str])
    "result_pass": ("    v = parse_positive(3)?\n    assert_eq(v, 3)\n    return Ok(done())\n", True),
    "result_fail_assert": ("    v = parse_positive(4)?\n    assert_eq(v, 3)\n    return Ok(done())\n", False),
    "result_fail_err": ("    v = parse_positive(-1)?\n    assert_eq(v, 3)\n    return Ok(done())\n", False),
}
RET = {"result_pass": "Result[None, str]", "result_fail_assert": "Result[None, str]", "result_fail_err": "Result[None, str]"}
MARKERS = {"none": "", "skip": '@skip("not yet")\n', "xfail": '@xfail("known bug")\n', "slow": "@slow\n"}
HEADER = (
    "from testing import assert, assert_eq, assert_ne, assert_true, assert_false, fail\n\n\n"
    "def done() -> None:\n    pass\n\n\ndef parse_positive(n: int) -> Result[int, str]:\n    if n < 0:\n        return Err(\"negative input\")\n    return Ok(n)\n\n\n"
)


def make_file(funcs):
    """funcs: list of (name, body kind, marker)"""
    src = HEADER
    for name, body, marker in funcs:
        src += f"{MARKERS[marker]}def {name}() -> {RET.get(body, 'None')}:\n{BODIES[body][0]}\n\n"
    return src


def model(funcs, flags, xpass_stops=True):
    """Reference model of the documented runner. Returns (verdicts: list of (name, verdict), exit_nonzero, executed names).
    xpass_stops: whether `-x` ("stop on first failure") also stops after an XPASS - the how-to does not say, both are accepted."""
    kw = None
    if "-k" in flags:
        kw = flags[flags.index("-k") + 1]
    slow = "--slow" in flags
    stop = "-x" in flags
    verdicts, executed = [], []
    failed = False
    for name, body, marker in funcs:
        if kw is not None and kw not in name:
            continue
        if marker == "slow" and not slow:
            continue
        if marker == "skip":
            verdicts.append((name, "SKIPPED"))
            continue
        executed.append(name)
        ok = BODIES[body][1]
        if marker == "xfail":
            v = "XPASS" if ok else "XFAIL"
        else:
            v = "PASSED" if ok else "FAILED"
        verdicts.append((name, v))
        if v in ("FAILED", "XPASS"):
            failed = True
            if stop and (v == "FAILED" or xpass_stops):
                break
    return verdicts, failed, executed


def run_one(args):
    k, funcs, flags, root = args
    d = os.path.join(root, f"r{k}")
    shutil.rmtree(d, ignore_errors=True)
    os.makedirs(d)
    src = make_file(funcs)
    open(os.path.join(d, "test_sample.incn"), "w", encoding="utf-8").write(src)
    env = dict(pipe.ENV_BASE)
    env["CARGO_TARGET_DIR"] = os.path.join(common.BUILD, f"t16_{k % common.NCPU}")
    env["RUST_LOG"] = "off"
    import fcntl

    os.makedirs(env["CARGO_TARGET_DIR"], exist_ok=True)
    with open(os.path.join(env["CARGO_TARGET_DIR"], ".lock"), "w") as lk:
        fcntl.flock(lk, fcntl.LOCK_EX)
        p = subprocess.run([common.INCAN, "--no-banner", "--color", "never", "test"] + list(flags) + ["."], cwd=d, env=env, capture_output=True, text=True, timeout=1800)
    executed = sorted(os.listdir(os.path.join(d, "target", "incan_tests"))) if os.path.isdir(os.path.join(d, "target", "incan_tests")) else []
    shutil.rmtree(d, ignore_errors=True)
    return k, src, p.returncode, p.stdout, p.stderr, executed


def run_dir(args):
    """A directory of several test files run with one `incan test .`, `rounds` times in the same directory: round r writes
    files[r] (dict file name -> funcs) over what is there. Returns per round (rc, stdout, stderr)."""
    k, rounds, root = args
    d = os.path.join(root, f"d{k}")
    shutil.rmtree(d, ignore_errors=True)
    os.makedirs(d)
    env = dict(pipe.ENV_BASE)
    env["CARGO_TARGET_DIR"] = os.path.join(common.BUILD, f"t16_{k % common.NCPU}")
    env["RUST_LOG"] = "off"
    import fcntl, time

    os.makedirs(env["CARGO_TARGET_DIR"], exist_ok=True)
    outs = []
    for files in rounds:
        for fn, funcs in files.items():
            open(os.path.join(d, fn), "w", encoding="utf-8").write(make_file(funcs))
        with open(os.path.join(env["CARGO_TARGET_DIR"], ".lock"), "w") as lk:
            fcntl.flock(lk, fcntl.LOCK_EX)
            p = subprocess.run([common.INCAN, "--no-banner", "--color", "never", "test", "."], cwd=d, env=env, capture_output=True, text=True, timeout=1800)
        outs.append((p.returncode, p.stdout, p.stderr))
    shutil.rmtree(d, ignore_errors=True)
    return k, outs


def parse_file_verdicts(stdout):
    out = []
    for line in stdout.splitlines():
        m = re.match(r"(\S*?)::(\w+)\s+(PASSED|FAILED|SKIPPED|XFAIL|XPASS)\b", line.strip())
        if m:
            out.append((os.path.basename(m.group(1)), m.group(2), m.group(3)))
    return out


def dir_scenarios(tier):
    """Directories whose files declare a test function of the SAME name with different outcomes (the runner keeps per-test
    state keyed by names), and directories run twice with a file edited in between."""
    kinds = [("pass", "none"), ("fail_eq", "none"), ("pass", "xfail"), ("fail_eq", "xfail"), ("fail_eq", "skip"), ("panic_index", "none")]
    pairs = list(itertools.product(kinds, kinds))
    if tier != "thorough":
        pairs = [(("pass", "none"), ("fail_eq", "none")), (("fail_eq", "none"), ("pass", "none")), (("pass", "none"), ("pass", "xfail")), (("fail_eq", "xfail"), ("fail_eq", "none")),
                 (("fail_eq", "skip"), ("pass", "none")), (("panic_index", "none"), ("pass", "none"))]
    out = []
    for (b1, m1), (b2, m2) in pairs:
        if (b1, m1) == (b2, m2):
            continue
        files = {"test_a_codec.incn": [("test_same", b1, m1), ("test_only_a", "pass", "none")], "test_b_parser.incn": [("test_only_b", "pass", "none"), ("test_same", b2, m2)]}
        out.append(("same-name-in-two-files", [files]))
    for (b1, m1), (b2, m2) in pairs[: (None if tier == "thorough" else 3)]:
        if (b1, m1) == (b2, m2):
            continue
        out.append(("file-edited-between-runs", [{"test_edit.incn": [("test_same", b1, m1), ("test_other", "pass", "none")]}, {"test_edit.incn": [("test_same", b2, m2), ("test_other", "pass", "none")]}]))
    if tier == "thorough":
        for (b1, m1), (b2, m2), (b3, m3) in itertools.product(kinds[:4], repeat=3):
            if len({(b1, m1), (b2, m2), (b3, m3)}) < 2:
                continue
            out.append(("same-name-in-three-files", [{"test_a.incn": [("test_same", b1, m1)], "test_b.incn": [("test_same", b2, m2)], "test_c.incn": [("test_same", b3, m3)]}]))
    return out


def parse_verdicts(stdout):
    out = []
    for line in stdout.splitlines():
        m = re.match(r"\S*::(\w+)\s+(PASSED|FAILED|SKIPPED|XFAIL|XPASS)\b", line.strip())
        if m:
            out.append((m.group(1), m.group(2)))
    return out


def parse_summary(stdout):
    """`=== 1 passed, 1 failed in 1.89s ===` -> dict"""
    for line in reversed(stdout.splitlines()):
        if re.search(r"=+ .* in [0-9.]+s =+", line):
            d = {}
            for n, w in re.findall(r"(\d+) (passed|failed|skipped|xfailed|xpassed)", line):
                d[w] = int(n)
            return d
    return None


def scenarios(tier):
    base = [
        ("test_a_pass", "pass", "none"),
        ("test_b_fail_eq", "fail_eq", "none"),
        ("test_c_fail_assert", "fail_assert", "none"),
        ("test_d_fail_call", "fail_call", "none"),
        ("test_e_panic_index", "panic_index", "none"),
        ("test_f_skip_would_fail", "fail_eq", "skip"),
        ("test_g_xfail_fails", "fail_eq", "xfail"),
        ("test_h_xfail_passes", "pass", "xfail"),
        ("test_i_slow_pass", "pass", "slow"),
        ("test_j_slow_fail", "fail_assert", "slow"),
        ("test_k_unit_output", "pass_with_output", "none"),
        ("test_l_result_pass", "result_pass", "none"),
        ("test_m_result_fail_assert", "result_fail_assert", "none"),
        ("test_n_result_fail_err", "result_fail_err", "none"),
        ("test_o_result_xfail", "result_fail_assert", "xfail"),
    ]
    flagsets = [[], ["--slow"], ["-k", "slow"], ["-k", "fail"], ["-k", "zzz_nomatch"], ["-k", "test_"], ["-x"], ["--slow", "-k", "slow"], ["-k", "pass"], ["-k", "xfail"]]
    out = []
    for fl in flagsets:
        out.append((base, fl))
    # all-green files: exit status must be zero
    green = [("test_a_pass", "pass", "none"), ("test_f_skip_would_fail", "fail_eq", "skip"), ("test_g_xfail_fails", "fail_eq", "xfail"), ("test_j_slow_fail", "fail_assert", "slow")]
    out.append((green, []))
    out.append((green, ["-k", "pass"]))
    # names where one is a proper prefix of another (the runner selects the function to run by name)
    for (b1, m1), (b2, m2) in [(("pass", "none"), ("fail_eq", "none")), (("fail_eq", "none"), ("pass", "none")), (("pass", "none"), ("pass", "xfail")), (("fail_eq", "none"), ("fail_eq", "xfail")),
                               (("fail_eq", "skip"), ("pass", "none")), (("pass", "none"), ("fail_eq", "skip")), (("panic_index", "none"), ("pass", "xfail"))]:
        out.append(([("test_p", b1, m1), ("test_p_longer", b2, m2)], []))
        out.append(([("test_p_longer", b2, m2), ("test_p", b1, m1), ("test_p_longer_still", b1, m1)], []))
    # every single (body x marker) function alone
    singles = list(itertools.product(BODIES, MARKERS))
    if tier != "thorough":
        singles = [s for i, s in enumerate(singles) if i % 3 == 0]
    for body, marker in singles:
        out.append(([(f"test_{body}_{marker}", body, marker)], [] if marker != "slow" else ["--slow"]))
    if tier == "thorough":
        for (b1, m1), (b2, m2) in itertools.product(list(itertools.product(["pass", "fail_eq", "panic_index"], MARKERS)), repeat=2):
            out.append(([(f"test_one_{b1}_{m1}", b1, m1), (f"test_two_{b2}_{m2}", b2, m2)], ["--slow"]))
            out.append(([(f"test_one_{b1}_{m1}", b1, m1), (f"test_two_{b2}_{m2}", b2, m2)], ["-x"]))
    return out


def run(tier):
    common.build(need_cli=True)
    out = common.Outcome("C16", tier)
    root = os.path.join(common.BUILD, "c16")
    shutil.rmtree(root, ignore_errors=True)
    sc = scenarios(tier)
    with ThreadPool(common.NCPU) as pool:
        res = pool.map(run_one, [(k, funcs, flags, root) for k, (funcs, flags) in enumerate(sc)])
    n_fn = 0
    sig_ok = set()
    for k, src, rc, stdout, stderr, executed in res:
        funcs, flags = sc[k]
        want_v, want_fail, want_exec = model(funcs, flags)
        got_v = parse_verdicts(stdout)
        if "-x" in flags:
            alt = model(funcs, flags, xpass_stops=False)
            if alt[0] != want_v and [n for n, _ in got_v] == [n for n, _ in alt[0]]:
                want_v, want_fail, want_exec = alt  # the runner continues after an XPASS: equally documented
        n_fn += len(want_v)
        case = {"flags": flags, "test_file": src, "stdout": stdout[-2500:], "exit": rc, "expected_verdicts": want_v, "executed": executed}
        tag = "flags:" + (" ".join(flags) or "-")
        probs = []
        gv, wv = dict(got_v), dict(want_v)
        for name, v in want_v:
            if name not in gv:
                probs.append((f"selected-test-not-reported:{name}", f"{name} should be {v} but is not in the output"))
            elif gv[name] != v:
                fn = next(f for f in funcs if f[0] == name)
                probs.append((f"wrong-verdict:body={fn[1]},marker={fn[2]}:{v}->{gv[name]}", f"{name}: reported {gv[name]}, expected {v}"))
        for name, v in got_v:
            if name not in wv:
                fn = next((f for f in funcs if f[0] == name), (name, "?", "?"))
                probs.append((f"unselected-test-reported:marker={fn[2]}", f"{name} was reported ({v}) but is outside the documented selection"))
        if [n for n, _ in got_v if n in wv] != [n for n, _ in want_v if n in gv]:
            probs.append(("order-differs", f"reported order {[n for n, _ in got_v]} vs file order {[n for n, _ in want_v]}"))
        if (rc != 0) != want_fail and want_v:
            probs.append((f"exit-status:{'zero-although-failure' if want_fail else 'nonzero-although-all-ok'}", f"exit {rc}, expected {'non-zero' if want_fail else '0'}"))
        extra_exec = sorted(set(executed) - set(want_exec))
        if extra_exec:
            fn = next((f for f in funcs if f[0] == extra_exec[0]), (extra_exec[0], "?", "?"))
            probs.append((f"test-body-executed-but-not-selected:marker={fn[2]}", f"harness directories exist for {extra_exec}"))
        missing_exec = sorted(set(want_exec) - set(executed))
        if missing_exec:
            probs.append(("selected-test-not-executed", f"no harness directory for {missing_exec}"))
        summ = parse_summary(stdout)
        if want_v and summ is not None:
            cnt = {}
            for _, v in got_v:
                w = {"PASSED": "passed", "FAILED": "failed", "SKIPPED": "skipped", "XFAIL": "xfailed", "XPASS": "xpassed"}[v]
                cnt[w] = cnt.get(w, 0) + 1
            if any(summ.get(w, 0) != c for w, c in cnt.items()) or any(w not in cnt and c for w, c in summ.items()):
                probs.append(("summary-counts-differ-from-verdict-lines", f"summary {summ} vs verdict lines {cnt}"))
        elif want_v and summ is None:
            probs.append(("no-summary-line", stdout[-200:]))
        if not probs:
            sig_ok.add((tuple(flags), tuple((b, m) for _, b, m in funcs)))
        for kind, detail in probs:
            out.fail(f"{kind}|{tag}" if len(funcs) > 2 else f"{kind}|single", {**case, "detail": detail})
    # ---- directories of several files / repeated runs -----------------------------------------------------------------
    dsc = dir_scenarios(tier)
    with ThreadPool(common.NCPU) as pool:
        dres = pool.map(run_dir, [(k, rounds, root) for k, (kind, rounds) in enumerate(dsc)])
    for k, outs in dres:
        kind, rounds = dsc[k]
        state = {}
        for rno, (files, (rc, stdout, stderr)) in enumerate(zip(rounds, outs)):
            state.update(files)
            want, want_fail = [], False
            for fn, funcs in sorted(state.items()):
                vs, failed, _ = model(funcs, [])
                want += [(fn, n, v) for n, v in vs]
                want_fail = want_fail or failed
            got = parse_file_verdicts(stdout)
            n_fn += len(want)
            shape = tuple((fn, tuple((b, m) for _, b, m in funcs)) for fn, funcs in sorted(state.items()))
            case = {"kind": kind, "round": rno, "files": {fn: make_file(funcs) for fn, funcs in state.items()}, "rounds": [{fn: make_file(funcs) for fn, funcs in f.items()} for f in rounds], "stdout": stdout[-2500:], "exit": rc, "expected_verdicts": want}
            probs = []
            if sorted(got) != sorted(want):
                wrong = sorted(set(want) - set(got))
                probs.append((f"wrong-or-missing-verdict:{wrong[0][2] if wrong else 'extra'}", f"expected {sorted(want)}, reported {sorted(got)}"))
            if (rc != 0) != want_fail:
                probs.append((f"exit-status:{'zero-although-failure' if want_fail else 'nonzero-although-all-ok'}", f"exit {rc}"))
            summ = parse_summary(stdout)
            cnt = {}
            for _, _, v in want:
                w = {"PASSED": "passed", "FAILED": "failed", "SKIPPED": "skipped", "XFAIL": "xfailed", "XPASS": "xpassed"}[v]
                cnt[w] = cnt.get(w, 0) + 1
            if summ is None or any(summ.get(w, 0) != c for w, c in cnt.items()) or any(w not in cnt and c for w, c in summ.items()):
                probs.append(("summary-counts-differ-from-the-truth", f"summary {summ} vs {cnt}"))
            if not probs:
                sig_ok.add((kind, rno, shape))
            for pk, detail in probs:
                out.fail(f"{pk}|{kind}", {**case, "detail": detail})
    shutil.rmtree(root, ignore_errors=True)
    cov = {
        "evaluations": n_fn,
        "distinct_nontrivial": len(sig_ok),
        "rule": "a 15-function test file covering body kinds (pass, assert_eq / assert / fail() failure, runtime panic, pass with output, and Result-returning tests that pass / fail an assertion / propagate an Err) x markers (none, @skip, @xfail, @slow) run "
        "under 10 flag sets (none, --slow, -k matching 0 / some / all, -x, --slow with -k), all-green files (exit status 0), 14 files whose test names are proper prefixes of one another with different outcomes, and single-function files for the (body x marker) "
        "product (quick: every third; thorough: all, plus all two-function files over 3 bodies x 4 markers with --slow and -x); evaluations = selected test functions judged; "
        "non-trivial = (flag set, file shape) scenarios whose every verdict, count, exit status and execution set matched the reference model",
        "samples": [{"flags": f, "functions": [list(x) for x in fs][:4]} for fs, f in common.pick_samples(sc)],
        "exhaustive": True,
        "scenarios": len(sc),
        "directory_scenarios": len(dsc),
    }
    return out.finish(
        cov,
        assumptions=[
            "reference model = tooling/how-to/testing.md: selection by -k substring and --slow, @skip not executed, @xfail inverts, exit status non-zero iff a selected test FAILED or XPASSed, tests reported in file order, -x stops after the first failure",
            "a test 'was executed' iff the runner created its harness directory target/incan_tests/<name>",
            "real `cargo test` (dev profile) is used for every executed function",
            "a test declared `-> Result[None, str]` that returns Err is expected to be FAILED (semantics of a Rust #[test] returning Result; the how-to does not discuss this shape)",
        ],
    )


def replay(path):
    common.build(need_cli=True)
    rec = json.load(open(path, encoding="utf-8"))
    c = rec["case"]
    root = os.path.join(common.BUILD, "c16_replay")
    d = os.path.join(root, "r0")
    shutil.rmtree(root, ignore_errors=True)
    os.makedirs(d)
    env = dict(pipe.ENV_BASE)
    env["CARGO_TARGET_DIR"] = os.path.join(common.BUILD, "t16_0")
    if "rounds" in c:
        for rno, files in enumerate(c["rounds"]):
            for fn, text in files.items():
                open(os.path.join(d, fn), "w", encoding="utf-8").write(text)
            p = subprocess.run([common.INCAN, "--no-banner", "--color", "never", "test", "."], cwd=d, env=env, capture_output=True, text=True)
            print(f"--- round {rno}: files {sorted(files)} exit {p.returncode}")
            print(p.stdout)
        print("expected verdicts (round %d):" % c["round"], c["expected_verdicts"])
        shutil.rmtree(root, ignore_errors=True)
        return 1
    open(os.path.join(d, "test_sample.incn"), "w", encoding="utf-8").write(c["test_file"])
    p = subprocess.run([common.INCAN, "--no-banner", "--color", "never", "test"] + list(c["flags"]) + ["."], cwd=d, env=env, capture_output=True, text=True)
    print(c["test_file"])
    print("flags:", c["flags"], "exit:", p.returncode)
    print(p.stdout)
    print("expected verdicts:", c["expected_verdicts"])
    shutil.rmtree(root, ignore_errors=True)
    return 1
