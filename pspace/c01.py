"""C01 – compiled programs behave exactly as the source says.

Every unit of the semantic corpus (pspace/sem.py) is compiled by the REAL `incan build`, run, and its output compared,
unit by unit, with CPython running the mechanical transliteration of the same text. Units are packed and bisected on
failure; every failing unit is re-run alone before it is reported.
"""
import json
import re

from . import common, pipe, sem, serve

PACK = 30


def check_units(units):
    """Ask the real checker about every unit alone (packed with nothing else)."""
    reqs = []
    for i, u in enumerate(units):
        inc, _ = sem.pack([u])
        reqs.append({"id": i, "op": "front", "src": inc, "emit": False})
    res = serve.run_requests(reqs)
    return [res[i] for i in range(len(units))]


def build_packs(packs, module=False):
    """packs: list of unit lists. Build+run each; bisect failing packs. Returns (ran: {unit name: (frames, result)}, failed: {unit name: result}).
    module=True: the units' functions live in an imported module (sem.pack_module)."""
    ran, failed = {}, {}
    work = list(packs)
    while work:
        jobs = []
        for k, p in enumerate(work):
            if module:
                files, _ = sem.pack_module(p)
                jobs.append((k, files))
                continue
            inc, _ = sem.pack(p)
            jobs.append((k, {"prog.incn": inc}))
        res = pipe.run_many(jobs)
        nxt = []
        for k, p in enumerate(work):
            r = res[k]
            if r.stage == "run":
                frames = sem.split_frames(r.stdout)
                for u in p:
                    ran[u.name] = (frames.get(u.name), r)
            elif len(p) == 1:
                failed[p[0].name] = r
            else:
                h = len(p) // 2
                nxt += [p[:h], p[h:]]
        work = nxt
    return ran, failed


def expected(units):
    """CPython reference per unit (each unit alone, so that a reference failure is attributed precisely)."""
    out = {}
    for u in units:
        _, py = sem.pack([u])
        rc, so, se = sem.run_python(py)
        out[u.name] = (rc, sem.split_frames(so).get(u.name, []), se)
    return out


def compare(u, frames, result, exp):
    """None if the compiled program behaved as the reference, else a description."""
    rc, lines, se = exp
    if frames is None:
        return "unit produced no output frame"
    if u.panics:
        if rc != 101:
            return f"MACHINERY: reference did not stop (rc={rc}): {se[-200:]}"
        want = se.strip().split("PANIC ", 1)[-1].strip()
        if result.exit != 101:
            return f"expected the program to stop with `{want}` (exit 101) but exit status was {result.exit}; stdout {frames!r}"
        if want not in result.stderr:
            got = [l for l in result.stderr.splitlines() if "panicked" in l or "Error" in l][:2]
            return f"expected runtime error `{want}`, program stopped with {got!r}"
    else:
        if rc != 0:
            return f"MACHINERY: reference failed rc={rc}: {se[-300:]}"
    if len(frames) != len(lines):
        return f"printed {len(frames)} lines {frames!r}, reference prints {len(lines)} {lines!r}"
    for i, (a, b) in enumerate(zip(frames, lines)):
        if not sem.line_equal(a, b):
            return f"line {i}: printed {a!r}, reference {b!r}"
    return None


def paren_loss_prediction(u):
    """For arithmetic/boolean units with parentheses: the output predicted by the known defect model (all grouping
    parentheses of the returned expression are dropped by the emitter)."""
    m = re.search(r"    return (.*)$", u.decls, re.M)
    if not m or "(" not in m.group(1):
        return None
    flat = m.group(1).replace("(", "").replace(")", "")
    if flat.startswith("not a < b"):
        return None
    bugged = sem.Unit(u.name, u.decls.replace(m.group(1), flat), u.driver, tags=u.tags)
    _, py = sem.pack([bugged])
    rc, so, se = sem.run_python(py)
    if rc != 0:
        return None
    return sem.split_frames(so).get(u.name, [])


def run(tier, pid="C01"):
    common.build(need_cli=True)
    pipe.warm()
    out = common.Outcome(pid, tier)
    units = sem.corpus(tier)
    chk = check_units(units)
    accepted = [u for u, c in zip(units, chk) if c["check"]["status"] == "ok"]
    rejected = {u.name: (c["check"]["errs"][:1] or c["parse"]["errs"][:1] or c["lex"]["errs"][:1]) for u, c in zip(units, chk) if c["check"]["status"] != "ok"}
    normal = [u for u in accepted if not u.panics]
    packs = [normal[i : i + PACK] for i in range(0, len(normal), PACK)] + [[u] for u in accepted if u.panics]
    ran, failed = build_packs(packs)
    exp = expected([u for u in accepted if u.name in ran])
    byname = {u.name: u for u in units}
    n_ok = 0
    sigs_ok = set()
    mism = {}
    for name, (frames, result) in ran.items():
        u = byname[name]
        why = compare(u, frames, result, exp[name])
        if why and why.startswith("MACHINERY"):
            raise common.MachineryError(f"{name}: {why}")
        if why:
            mism[name] = why
        else:
            n_ok += 1
            sigs_ok.add(u.tags)
    # confirm every mismatch alone (a packed program must not hide or create an effect)
    if mism:
        alone, alone_failed = build_packs([[byname[n]] for n in mism])
        for name in list(mism):
            if name in alone:
                why = compare(byname[name], alone[name][0], alone[name][1], exp[name])
                if not why:
                    raise common.MachineryError(f"{name}: mismatch in the packed program did not reproduce alone ({mism[name]})")
                mism[name] = why
                ran[name] = alone[name]
    for name, why in mism.items():
        u = byname[name]
        key = f"unit:{name}"
        pred = paren_loss_prediction(u) if "parens" in u.tags else None
        if pred is not None and ran[name][0] is not None and len(pred) == len(ran[name][0]) and all(sem.line_equal(a, b) for a, b in zip(ran[name][0], pred)):
            key = "grouping-parentheses-dropped"
        inc, py = sem.pack([u])
        out.fail(key, {"unit": name, "tags": list(u.tags), "why": why, "incan": inc, "reference_python": py})
    # ---- placement lifts: the matched single-function units again as a method of a class and in an imported module
    import zlib

    matched = [byname[n] for n in ran if n not in mism and sem.liftable(byname[n])]
    if tier != "thorough":
        # the generated families (arithmetic trees, statement grammar) are sampled; every hand-written feature unit is lifted
        matched = [u for u in matched if u.name[:3] not in ("ar_", "fl_", "bo_", "gq_", "gi_") or zlib.crc32(u.name.encode()) % 3 == 0]
    lift_stats = {}
    not_built_lifts = {}
    for kind in ("method", "module"):
        if kind == "method":
            lifted = [sem.lift_method(u) for u in matched]
            chk2 = check_units(lifted)
            acc2 = [u for u, c in zip(lifted, chk2) if c["check"]["status"] == "ok"]
            rej2 = [u.name for u, c in zip(lifted, chk2) if c["check"]["status"] != "ok"]
            ran2, failed2 = build_packs([acc2[i : i + PACK] for i in range(0, len(acc2), PACK)])
        else:
            acc2, rej2 = list(matched), []
            ran2, failed2 = build_packs([acc2[i : i + PACK] for i in range(0, len(acc2), PACK)], module=True)
        ok2 = 0
        for u in acc2:
            if u.name in failed2:
                not_built_lifts[f"lift:{kind}|unit:{u.name}"] = f"{failed2[u.name].stage}: {failed2[u.name].detail}"  # reported by C02
                continue
            frames, result = ran2[u.name]
            why = compare(byname[u.name], frames, result, exp[u.name])
            if why and why.startswith("MACHINERY"):
                raise common.MachineryError(f"{u.name} ({kind} lift): {why}")
            if why:
                out.fail(f"lift:{kind}|unit:{u.name}", {"unit": u.name, "tags": list(u.tags), "why": why, "incan": sem.pack([u])[0] if kind == "method" else json.dumps(sem.pack_module([u])[0]), "reference_python": sem.pack([byname[u.name]])[1]})
            else:
                ok2 += 1
                sigs_ok.add(u.tags + (f"lift:{kind}",))
        for n in rej2:
            not_built_lifts[f"lift:{kind}|unit:{n}"] = "rejected by the checker"
        lift_stats[kind] = {"lifted": len(matched), "accepted": len(acc2), "matched_reference": ok2}
    # ---- the remaining matched units (several declarations: models, classes, enums, traits, newtypes, consts) with all
    # their declarations in an imported module, one project per unit
    multi = [byname[n] for n in ran if n not in mism and not sem.liftable(byname[n]) and byname[n].decls and not byname[n].panics]
    gres = pipe.run_many([(k, sem.module_lift_general(u)) for k, u in enumerate(multi)])
    g_ok = 0
    for k, u in enumerate(multi):
        r = gres[k]
        case = {"unit": u.name, "tags": list(u.tags), "incan": json.dumps(sem.module_lift_general(u)), "reference_python": sem.pack([u])[1]}
        if r.stage != "run":
            not_built_lifts[f"lift:module-general|unit:{u.name}"] = f"{r.stage}: {r.detail}"  # reported by C02
            continue
        why = compare(u, sem.split_frames(r.stdout).get(u.name), r, exp[u.name])
        if why and why.startswith("MACHINERY"):
            raise common.MachineryError(f"{u.name} (general module lift): {why}")
        if why:
            out.fail(f"lift:module-general|unit:{u.name}", {**case, "why": why})
        else:
            g_ok += 1
            sigs_ok.add(u.tags + ("lift:module-general",))
    lift_stats["module-general"] = {"lifted": len(multi), "matched_reference": g_ok}
    # ---- and with types and functions in two different imported modules (the function module imports the type module)
    chain = [(u, sem.module_lift_chain(u)) for u in multi]
    chain = [(u, f) for u, f in chain if f]
    cres = pipe.run_many([(k, f) for k, (u, f) in enumerate(chain)])
    c_ok = 0
    for k, (u, f) in enumerate(chain):
        r = cres[k]
        if r.stage != "run":
            not_built_lifts[f"lift:module-chain|unit:{u.name}"] = f"{r.stage}: {r.detail}"  # reported by C02 (if the checker accepts it)
            continue
        why = compare(u, sem.split_frames(r.stdout).get(u.name), r, exp[u.name])
        if why and why.startswith("MACHINERY"):
            raise common.MachineryError(f"{u.name} (chain lift): {why}")
        if why:
            out.fail(f"lift:module-chain|unit:{u.name}", {"unit": u.name, "tags": list(u.tags), "incan": json.dumps(f), "reference_python": sem.pack([u])[1], "why": why})
        else:
            c_ok += 1
            sigs_ok.add(u.tags + ("lift:module-chain",))
    lift_stats["module-chain"] = {"lifted": len(chain), "matched_reference": c_ok}
    # ---- the entry file and an imported module declare an item of the SAME name with different content: names are
    #      module-scoped, each file must see its own declaration (expected output by construction)
    clash_ok = 0
    cj = clash_programs()
    clres = pipe.run_many([(k, f) for k, (name, f, want) in enumerate(cj)])
    for k, (name, f, want) in enumerate(cj):
        r = clres[k]
        if r.stage != "run":
            not_built_lifts[f"clash:{name}"] = f"{r.stage}: {r.detail}"
            continue
        got = r.stdout.strip("\n").split("\n")
        if r.exit != 0 or got != want:
            out.fail(f"clash:{name}", {"unit": name, "files": f, "incan": f["prog.incn"], "printed": got, "expected": want, "exit": r.exit, "why": "an item declared in the entry file and, differently, in an imported module: each file must use its own"})
        else:
            clash_ok += 1
            sigs_ok.add(("clash", name))
    lift_stats["same-name-in-two-modules"] = {"programs": len(cj), "matched_expected": clash_ok}
    # units the checker accepted but that do not build are C02's subject; they are outside what C01 can observe
    cov = {
        "evaluations": len(accepted),
        "distinct_nontrivial": len(sigs_ok),
        "rule": "semantic corpus: arithmetic trees over + - * // % with necessary/redundant parentheses (depth 2; thorough 3) on 12 argument tuples, float/mixed arithmetic, "
        "comparisons and boolean operators, evaluation-order probes, if/elif/else, while/break/continue, for over range/list/str, nested loops, documented scoping cases, compound "
        "assignment on variables/fields/indices, lists/dicts/slices/comprehensions/membership, string ops/index/slice/methods/f-strings, Option/Result/?/match with every pattern "
        "form, enums with data, models/classes/inheritance/traits/newtypes/closures/consts/defaults/named args, the five documented runtime errors, and every sequence of <= 2 "
        "statements from a 44-statement grammar over two mutable ints (assignments, compound assignments, if/elif/else, for with break/continue, while, match, and/or; quick: all "
        "singles and 44 x 6 pairs, thorough: all 44 x 44 pairs) on 4 argument pairs; each unit is compiled by the "
        "real CLI and compared with CPython on the transliterated text; every matched single-function unit (quick: a third of them) is compiled again as a method of a class and as a pub function of an imported module (multi-file project) and must print the same; every other matched unit (models, classes, enums, traits, newtypes, consts) is compiled again with all its declarations in an imported module; 11 two-file programs in which the entry file and the imported module declare a same-named model / class (field defaults), const, function (parameter order) or enum (variants) differently; non-trivial = distinct tag signatures among units that built, ran and matched",
        "samples": [{"unit": u.name, "decls": u.decls, "driver": u.driver} for u in common.pick_samples(accepted)],
        "exhaustive": True,
        "units": len(units),
        "accepted_by_checker": len(accepted),
        "rejected_by_checker": rejected,
        "built_and_ran": len(ran),
        "matched_reference": n_ok,
        "accepted_but_did_not_build": {n: f"{r.stage}: {r.detail}" for n, r in failed.items()},
        "placement_lifts": lift_stats,
        "placement_lifts_not_built": not_built_lifts,
    }
    pipe.prune_targets()
    return out.finish(
        cov,
        assumptions=[
            "CPython executing the mechanical transliteration (pspace/sem.py: to_python + hand-written overrides for `?`, shadowing, traits, newtypes, closures) is the reference",
            "floats are compared as values (Rust prints 2.0 as `2`), the sign of zero textually; integer overflow, NaN/Inf, aliasing of mutable values are outside the alphabet",
            "a unit that the checker accepts but that does not build is reported by C02, not here",
        ],
    )


def clash_programs():
    """(name, files, expected output lines)"""
    out = []
    for kind in ("model", "class"):
        for vis in ("pub ", ""):
            lib = f"{vis}{kind} Cfg:\n    size: int = 3\n    tag: str = \"lib\"\n\n\npub def lib_size() -> int:\n    c = Cfg(tag=\"x\")\n    return c.size\n\n\npub def lib_tag() -> str:\n    c = Cfg(size=1)\n    return c.tag\n"
            main = (f"from clashlib import lib_size, lib_tag\n\n\n{kind} Cfg:\n    size: int = 7\n    tag: str = \"app\"\n\n\ndef main() -> None:\n    a = Cfg(tag=\"custom\")\n    println(a.size)\n    println(a.tag)\n"
                    "    b = Cfg(size=9)\n    println(b.size)\n    println(b.tag)\n    println(lib_size())\n    println(lib_tag())\n")
            out.append((f"{kind}-field-defaults|lib:{'pub' if vis else 'private'}", {"clashlib.incn": lib, "prog.incn": main}, ["7", "custom", "9", "app", "3", "lib"]))
    # the same, declared in the other order in the entry file (use before declaration) and with the import last
    lib = "pub model Cfg:\n    size: int = 3\n\n\npub def lib_size() -> int:\n    c = Cfg()\n    return c.size\n"
    main = "def main() -> None:\n    a = Cfg()\n    println(a.size)\n    println(lib_size())\n\n\nmodel Cfg:\n    size: int = 7\n\n\nfrom clashlib import lib_size\n"
    out.append(("model-all-defaults|declared-after-use", {"clashlib.incn": lib, "prog.incn": main}, ["7", "3"]))
    for vis in ("pub ", ""):
        lib = f"{vis}const LIMIT: int = 3\n\n\npub def lib_limit() -> int:\n    return LIMIT + 0\n"
        main = "from clashlib import lib_limit\n\n\nconst LIMIT: int = 7\n\n\ndef main() -> None:\n    println(LIMIT)\n    println(lib_limit())\n"
        out.append((f"const|lib:{'pub' if vis else 'private'}", {"clashlib.incn": lib, "prog.incn": main}, ["7", "3"]))
        lib = f"{vis}def helper(b: int, a: int) -> int:\n    return a * 100 + b\n\n\npub def lib_calc() -> int:\n    return helper(b=1, a=2)\n"
        main = "from clashlib import lib_calc\n\n\ndef helper(a: int, b: int) -> int:\n    return a - b\n\n\ndef main() -> None:\n    println(helper(b=1, a=5))\n    println(helper(5, 1))\n    println(lib_calc())\n"
        out.append((f"function-parameter-order|lib:{'pub' if vis else 'private'}", {"clashlib.incn": lib, "prog.incn": main}, ["4", "4", "201"]))
        lib = f"{vis}enum Mode:\n    Slow\n    Fast\n\n\npub def lib_mode() -> int:\n    m = Mode.Fast\n    match m:\n        case Mode.Slow:\n            return 30\n        case Mode.Fast:\n            return 31\n"
        main = "from clashlib import lib_mode\n\n\nenum Mode:\n    Fast\n    Slow\n    Off\n\n\ndef main() -> None:\n    m = Mode.Fast\n    match m:\n        case Mode.Fast:\n            println(70)\n        case Mode.Slow:\n            println(71)\n        case Mode.Off:\n            println(72)\n    println(lib_mode())\n"
        out.append((f"enum-variants|lib:{'pub' if vis else 'private'}", {"clashlib.incn": lib, "prog.incn": main}, ["70", "31"]))
    return out


def replay(path):
    common.build(need_cli=True)
    rec = json.load(open(path, encoding="utf-8"))
    c = rec["case"]
    if "files" in c and "expected" in c:
        r = pipe.run_program(0, c["files"])
        got = r.stdout.strip("\n").split("\n")
        for k, v in c["files"].items():
            print(f"# --- {k}\n{v}")
        print("compiled program: stage", r.stage, "exit", r.exit, "printed", got, "expected", c["expected"])
        return 0 if (r.stage == "run" and r.exit == 0 and got == c["expected"]) else 1
    r = pipe.run_program(0, {"prog.incn": c["incan"]})
    rc, so, se = sem.run_python(c["reference_python"])
    print("compiled program: stage", r.stage, "exit", r.exit)
    print(r.stdout)
    print(r.stderr[-400:])
    print("reference (CPython): rc", rc)
    print(so)
    print(se[-300:])
    a = sem.split_frames(r.stdout).get(c["unit"])
    b = sem.split_frames(so).get(c["unit"], [])
    same = a is not None and len(a) == len(b) and all(sem.line_equal(x, y) for x, y in zip(a, b))
    if rc == 101:
        same = same and r.exit == 101 and se.strip().split("PANIC ", 1)[-1].strip() in r.stderr
    return 0 if same else 1
