//! In-process access to the real front end (lexer, parser, checker, formatter, code generator) for the program-space
//! checks. Two uses:
//!   * `serve`: JSON-lines server – Python enumerates programs, this side runs the real code and reports observations;
//!   * building blocks (`ast_sig`, `diag_ok`, `pipeline`) for the enumerations that live in Rust (layout.rs, totality.rs).
use crate::util::{catch, jstr};
use incan::backend::IrCodegen;
use incan::backend::ir::codegen::GenerationError;
use incan::format::format_source;
use incan::frontend::ast::Program;
use incan::frontend::diagnostics::{CompileError, format_error};
use incan::frontend::typechecker::TypeChecker;
use incan::frontend::{lexer, parser};
use incan::lsp::diagnostics::compile_error_to_diagnostic;
use serde_json::{Value, json};
use std::io::{BufRead, Write};
use tower_lsp::lsp_types::Url;

// ---------------------------------------------------------------------------------------------------------------
// AST signature: derived Debug rendering with every `Span { start: N, end: M }` erased by a quote-aware scanner.
// ---------------------------------------------------------------------------------------------------------------

pub fn erase_spans(dbg: &str) -> String {
    let b = dbg.as_bytes();
    let mut out = String::with_capacity(dbg.len());
    let mut i = 0;
    const PAT: &[u8] = b"Span { start: ";
    while i < b.len() {
        let c = b[i];
        if c == b'"' {
            // string literal: copy through the closing quote, honouring backslash escapes
            let start = i;
            i += 1;
            while i < b.len() {
                if b[i] == b'\\' {
                    i += 2;
                    continue;
                }
                if b[i] == b'"' {
                    i += 1;
                    break;
                }
                i += 1;
            }
            out.push_str(&dbg[start..i.min(b.len())]);
            continue;
        }
        if c == b'S' && b[i..].starts_with(PAT) {
            let mut j = i + PAT.len();
            let d0 = j;
            while j < b.len() && b[j].is_ascii_digit() {
                j += 1;
            }
            if j > d0 && b[j..].starts_with(b", end: ") {
                j += 7;
                let d1 = j;
                while j < b.len() && b[j].is_ascii_digit() {
                    j += 1;
                }
                if j > d1 && b[j..].starts_with(b" }") {
                    out.push('_');
                    i = j + 2;
                    continue;
                }
            }
        }
        // copy one UTF-8 scalar
        let ch_len = utf8_len(c);
        out.push_str(&dbg[i..i + ch_len]);
        i += ch_len;
    }
    out
}

fn utf8_len(b: u8) -> usize {
    if b < 0x80 {
        1
    } else if b >> 5 == 0b110 {
        2
    } else if b >> 4 == 0b1110 {
        3
    } else {
        4
    }
}

pub fn ast_sig(p: &Program) -> String {
    erase_spans(&format!("{p:?}"))
}

// ---------------------------------------------------------------------------------------------------------------
// Diagnostics well-formedness (C11) – returns a description of what is wrong, if anything
// ---------------------------------------------------------------------------------------------------------------

pub fn diag_problem(src: &str, e: &CompileError, uri: &Url) -> Option<String> {
    let (s, t) = (e.span.start, e.span.end);
    if s > t {
        return Some(format!("span start {s} > end {t} ({})", e.message));
    }
    if t > src.len() {
        return Some(format!("span end {t} beyond file length {} ({})", src.len(), e.message));
    }
    if !src.is_char_boundary(s) || !src.is_char_boundary(t) {
        return Some(format!("span ({s},{t}) not on character boundaries ({})", e.message));
    }
    if let Err(m) = catch(|| format_error("f.incn", src, e)) {
        return Some(format!("format_error panicked: {m}"));
    }
    match catch(|| compile_error_to_diagnostic(e, src, uri)) {
        Err(m) => return Some(format!("compile_error_to_diagnostic panicked: {m}")),
        Ok(d) => {
            if d.range.start > d.range.end {
                return Some("editor range start > end".to_string());
            }
        }
    }
    None
}

// ---------------------------------------------------------------------------------------------------------------
// Pipeline
// ---------------------------------------------------------------------------------------------------------------

#[derive(Debug, Default)]
pub struct Stage {
    /// "ok" | "err" | "panic" | "skipped"
    pub status: &'static str,
    pub errs: Vec<(String, usize, usize)>,
    pub panic: Option<String>,
    pub detail: Option<String>,
}

impl Stage {
    fn skipped() -> Stage {
        Stage {
            status: "skipped",
            ..Default::default()
        }
    }
    fn from_errs(errs: &[CompileError]) -> Stage {
        Stage {
            status: "err",
            errs: errs.iter().map(|e| (e.message.clone(), e.span.start, e.span.end)).collect(),
            ..Default::default()
        }
    }
    pub fn to_json(&self) -> Value {
        json!({"status": self.status, "errs": self.errs.iter().map(|(m,s,e)| json!([m,s,e])).collect::<Vec<_>>(), "panic": self.panic, "detail": self.detail})
    }
}

pub struct Pipeline {
    pub lex: Stage,
    pub parse: Stage,
    pub check: Stage,
    pub fmt: Stage,
    pub emit: Stage,
    pub program: Option<Program>,
    pub formatted: Option<String>,
    pub rust: Option<String>,
    /// first malformed-diagnostic / empty-error-list / panic problem found (C11 oracle)
    pub problem: Option<String>,
}

/// Run every front-end stage the way the CLI does, each under `catch_unwind`.
pub fn pipeline(src: &str, uri: &Url, want_emit: bool) -> Pipeline {
    let mut p = Pipeline {
        lex: Stage::skipped(),
        parse: Stage::skipped(),
        check: Stage::skipped(),
        fmt: Stage::skipped(),
        emit: Stage::skipped(),
        program: None,
        formatted: None,
        rust: None,
        problem: None,
    };
    let note = |p: &mut Pipeline, what: String| {
        if p.problem.is_none() {
            p.problem = Some(what);
        }
    };
    let diags = |p: &mut Pipeline, stage: &str, errs: &[CompileError]| {
        if errs.is_empty() {
            if p.problem.is_none() {
                p.problem = Some(format!("{stage}: failed with an empty diagnostics list"));
            }
        }
        for e in errs {
            if let Some(w) = diag_problem(src, e, uri) {
                if p.problem.is_none() {
                    p.problem = Some(format!("{stage}: {w}"));
                }
            }
        }
    };
    // format_source is total on its own (it lexes and parses internally)
    match catch(|| format_source(src)) {
        Ok(Ok(s)) => {
            p.fmt.status = "ok";
            p.formatted = Some(s);
        }
        Ok(Err(e)) => {
            p.fmt.status = "err";
            p.fmt.detail = Some(e.to_string().chars().take(200).collect());
        }
        Err(m) => {
            p.fmt.status = "panic";
            p.fmt.panic = Some(m.clone());
            note(&mut p, format!("format_source panicked: {m}"));
        }
    }
    let tokens = match catch(|| lexer::lex(src)) {
        Ok(Ok(t)) => {
            p.lex.status = "ok";
            t
        }
        Ok(Err(errs)) => {
            p.lex = Stage::from_errs(&errs);
            diags(&mut p, "lex", &errs);
            return p;
        }
        Err(m) => {
            p.lex.status = "panic";
            p.lex.panic = Some(m.clone());
            note(&mut p, format!("lexer panicked: {m}"));
            return p;
        }
    };
    let program = match catch(|| parser::parse(&tokens)) {
        Ok(Ok(a)) => {
            p.parse.status = "ok";
            a
        }
        Ok(Err(errs)) => {
            p.parse = Stage::from_errs(&errs);
            diags(&mut p, "parse", &errs);
            return p;
        }
        Err(m) => {
            p.parse.status = "panic";
            p.parse.panic = Some(m.clone());
            note(&mut p, format!("parser panicked: {m}"));
            return p;
        }
    };
    match catch(|| {
        let mut tc = TypeChecker::new();
        tc.check_with_imports(&program, &[])
    }) {
        Ok(Ok(())) => p.check.status = "ok",
        Ok(Err(errs)) => {
            p.check = Stage::from_errs(&errs);
            diags(&mut p, "check", &errs);
        }
        Err(m) => {
            p.check.status = "panic";
            p.check.panic = Some(m.clone());
            note(&mut p, format!("type checker panicked: {m}"));
        }
    }
    if want_emit {
        match catch(|| IrCodegen::new().try_generate(&program)) {
            Ok(Ok(code)) => {
                p.emit.status = "ok";
                p.rust = Some(code);
            }
            Ok(Err(GenerationError::TypeCheck(errs))) => {
                p.emit = Stage::from_errs(&errs);
                p.emit.detail = Some("typecheck".to_string());
                diags(&mut p, "emit/typecheck", &errs);
            }
            Ok(Err(e)) => {
                p.emit.status = "err";
                let kind = match &e {
                    GenerationError::Lowering(_) => "lowering",
                    GenerationError::Emission(_) => "emission",
                    GenerationError::TypeCheck(_) => "typecheck",
                };
                p.emit.detail = Some(format!("{kind}: {e}"));
            }
            Err(m) => {
                p.emit.status = "panic";
                p.emit.panic = Some(m.clone());
                note(&mut p, format!("--emit-rust panicked: {m}"));
            }
        }
    }
    p.program = Some(program);
    p
}

// ---------------------------------------------------------------------------------------------------------------
// Formatter observations (C08 / C09)
// ---------------------------------------------------------------------------------------------------------------

/// Check the C09 surface rules on formatter output by re-lexing it: tabs / trailing blanks are only allowed inside
/// string-like tokens.
fn surface_problems(out: &str) -> Vec<String> {
    let mut probs = Vec::new();
    if !out.ends_with('\n') {
        probs.push("output does not end with a newline".to_string());
    } else if out.ends_with("\n\n") {
        probs.push("output ends with more than one newline".to_string());
    }
    // string-like token byte ranges
    let mut protected: Vec<(usize, usize)> = Vec::new();
    if let Ok(toks) = lexer::lex(out) {
        for t in toks {
            use incan::frontend::lexer::TokenKind as K;
            if matches!(t.kind, K::String(_) | K::Bytes(_) | K::FString(_)) {
                protected.push((t.span.start, t.span.end));
            }
        }
    }
    let inside = |o: usize| protected.iter().any(|&(s, e)| o >= s && o < e);
    let mut off = 0usize;
    for line in out.split_inclusive('\n') {
        let body = line.strip_suffix('\n').unwrap_or(line);
        if let Some(i) = body.find('\t') {
            if !inside(off + i) {
                probs.push(format!("tab outside string at byte {}", off + i));
            }
        }
        if body.ends_with(' ') || body.ends_with('\t') || body.ends_with('\r') {
            let last = off + body.len() - 1;
            if !inside(last) {
                probs.push(format!("trailing whitespace at byte {last}"));
            }
        }
        off += line.len();
    }
    probs.truncate(3);
    probs
}

fn parse_src(src: &str) -> Result<Program, String> {
    let toks = lexer::lex(src).map_err(|e| format!("lex: {}", e.first().map(|x| x.message.clone()).unwrap_or_default()))?;
    parser::parse(&toks).map_err(|e| format!("parse: {} @{}", e.first().map(|x| x.message.clone()).unwrap_or_default(), e.first().map(|x| x.span.start).unwrap_or(0)))
}

pub fn fmt_observe(src: &str) -> Value {
    let a = match catch(|| parse_src(src)) {
        Ok(Ok(a)) => a,
        Ok(Err(m)) => return json!({"parses": false, "why": m}),
        Err(m) => return json!({"parses": false, "why": format!("panic: {m}")}),
    };
    let out = match catch(|| format_source(src)) {
        Ok(Ok(o)) => o,
        Ok(Err(e)) => return json!({"parses": true, "fmt": "err", "why": e.to_string()}),
        Err(m) => return json!({"parses": true, "fmt": "panic", "why": m}),
    };
    let sig_a = ast_sig(&a);
    let (reparses, same, sig_b, why) = match catch(|| parse_src(&out)) {
        Ok(Ok(b)) => {
            let sb = ast_sig(&b);
            let same = sb == sig_a;
            (true, same, if same { None } else { Some(sb) }, None)
        }
        Ok(Err(m)) => (false, false, None, Some(m)),
        Err(m) => (false, false, None, Some(format!("panic: {m}"))),
    };
    let (idem, out2) = match catch(|| format_source(&out)) {
        Ok(Ok(o2)) => {
            if o2 == out {
                (Some(true), None)
            } else {
                (Some(false), Some(o2))
            }
        }
        _ => (None, None),
    };
    json!({
        "parses": true, "fmt": "ok", "out": out, "reparses": reparses, "same_ast": same,
        "ast_a": if same { None } else { Some(sig_a) }, "ast_b": sig_b, "why": why,
        "idempotent": idem, "out2": out2, "surface": surface_problems(&out),
    })
}

// ---------------------------------------------------------------------------------------------------------------
// serve: JSON lines in, JSON lines out
// ---------------------------------------------------------------------------------------------------------------

/// Type-check `src` with the given dependency modules in scope (as the CLI does for the entry file of a multi-file project)
/// and validate every diagnostic against the entry text: all of them are rendered against that text.
fn project_observe(src: &str, deps: Vec<Value>, uri: &Url) -> Value {
    use incan::frontend::typechecker::TypeChecker;
    let main = match catch(|| parse_src(src)) {
        Ok(Ok(a)) => a,
        Ok(Err(m)) => return json!({"parses": false, "why": m}),
        Err(m) => return json!({"parses": false, "why": format!("panic: {m}")}),
    };
    let mut parsed = Vec::new();
    for d in &deps {
        let name = d["name"].as_str().unwrap_or("dep").to_string();
        match catch(|| parse_src(d["src"].as_str().unwrap_or(""))) {
            Ok(Ok(a)) => parsed.push((name, a)),
            _ => return json!({"parses": false, "why": format!("dependency {name} does not parse")}),
        }
    }
    let dep_refs: Vec<(&str, &incan_syntax::ast::Program)> = parsed.iter().map(|(n, a)| (n.as_str(), a)).collect();
    let res = catch(|| {
        let mut tc = TypeChecker::new();
        tc.check_with_imports(&main, &dep_refs)
    });
    match res {
        Err(m) => json!({"parses": true, "panic": m}),
        Ok(Ok(())) => json!({"parses": true, "ok": true, "errs": [], "problems": []}),
        Ok(Err(errs)) => {
            let problems: Vec<String> = errs.iter().filter_map(|e| diag_problem(src, e, uri)).collect();
            let list: Vec<Value> = errs.iter().map(|e| json!([e.message, e.span.start, e.span.end])).collect();
            json!({"parses": true, "ok": false, "errs": list, "problems": problems})
        }
    }
}

pub fn run_serve(_args: &[String]) {
    let uri = Url::parse("file:///f.incn").expect("url");
    let stdin = std::io::stdin();
    let stdout = std::io::stdout();
    let mut out = stdout.lock();
    for line in stdin.lock().lines() {
        let Ok(line) = line else { break };
        if line.trim().is_empty() {
            continue;
        }
        let req: Value = match serde_json::from_str(&line) {
            Ok(v) => v,
            Err(e) => {
                let _ = writeln!(out, "{}", json!({"error": format!("bad request: {e}")}));
                continue;
            }
        };
        let id = req.get("id").cloned().unwrap_or(Value::Null);
        let op = req.get("op").and_then(|v| v.as_str()).unwrap_or("");
        let src = req.get("src").and_then(|v| v.as_str()).unwrap_or("");
        let mut resp = match op {
            "front" => {
                let want_emit = req.get("emit").and_then(|v| v.as_bool()).unwrap_or(true);
                let want_rust = req.get("rust").and_then(|v| v.as_bool()).unwrap_or(false);
                let want_ast = req.get("ast").and_then(|v| v.as_bool()).unwrap_or(false);
                let p = pipeline(src, &uri, want_emit);
                json!({
                    "lex": p.lex.to_json(), "parse": p.parse.to_json(), "check": p.check.to_json(),
                    "fmt": p.fmt.to_json(), "emit": p.emit.to_json(), "problem": p.problem,
                    "rust": if want_rust { p.rust.clone() } else { None },
                    "ast": if want_ast { p.program.as_ref().map(ast_sig) } else { None },
                })
            }
            "fmt" => fmt_observe(src),
            "ast" => match catch(|| parse_src(src)) {
                Ok(Ok(a)) => json!({"parses": true, "ast": ast_sig(&a)}),
                Ok(Err(m)) => json!({"parses": false, "why": m}),
                Err(m) => json!({"parses": false, "why": format!("panic: {m}")}),
            },
            "types" => crate::typing::types_observe(src),
            "project" => project_observe(src, req.get("deps").and_then(|v| v.as_array()).cloned().unwrap_or_default(), &uri),
            _ => json!({"error": format!("unknown op {}", jstr(op))}),
        };
        if let Some(o) = resp.as_object_mut() {
            o.insert("id".to_string(), id);
        }
        let _ = writeln!(out, "{resp}");
        let _ = out.flush();
    }
}
